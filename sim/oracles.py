"""
Reference models and oracles (DESIGN.md sections 2.6 / 2.6a).

All of them are a few lines of NumPy over tiny inputs; none of them calls into
the code under test except to *read* what it produced (``Patch.load_data`` is
re-implemented here on the raw ``data.bin`` bytes so that even the reader is
independent).
"""

from __future__ import annotations

import os

import numpy as np

from sim.workloads import nearest_center, to_3d


# ---------------------------------------------------------------- raw cache
def read_data_bin(path: str):
    """Independent parser of ``patch_N/data.bin``: 1 header byte (bit 2 weights,
    bit 3 redshifts) followed by packed float64 rows.  Returns (columns, rows)."""
    with open(path, "rb") as f:
        raw = f.read()
    if len(raw) < 1:
        raise ValueError(f"{path}: empty data file")
    flags = raw[0]
    cols = ["ra", "dec"]
    if flags & 4:
        cols.append("w")
    if flags & 8:
        cols.append("z")
    body = raw[1:]
    width = 8 * len(cols)
    if len(body) % width:
        raise ValueError(f"{path}: {len(body)} bytes is not a multiple of {width}")
    rows = np.frombuffer(body, dtype="<f8").reshape(-1, len(cols))
    return cols, rows


def read_cache(cache_dir: str) -> dict[int, tuple[list, np.ndarray]]:
    """Every ``patch_<id>/data.bin`` below a cache directory, by directory
    listing (independent of ``patch_ids.bin``)."""
    out = {}
    for name in sorted(os.listdir(cache_dir)):
        if name.startswith("patch_") and os.path.isdir(os.path.join(cache_dir, name)):
            pid = int(name.split("_")[1])
            out[pid] = read_data_bin(os.path.join(cache_dir, name, "data.bin"))
    return out


def read_patch_ids_file(cache_dir: str):
    path = os.path.join(cache_dir, "patch_ids.bin")
    if not os.path.exists(path):
        return None
    return np.fromfile(path, dtype="<i2").tolist()


# ---------------------------------------------------- record multiset model
def expected_rows(records: dict, degrees: bool = True) -> tuple[list, np.ndarray]:
    cols = ["ra", "dec"]
    ra = np.asarray(records["ra"], dtype="f8")
    dec = np.asarray(records["dec"], dtype="f8")
    if degrees:
        ra, dec = np.deg2rad(ra), np.deg2rad(dec)
    arrs = [ra, dec]
    if "w" in records:
        cols.append("w")
        arrs.append(np.asarray(records["w"]).astype("f8"))
    if "z" in records:
        cols.append("z")
        arrs.append(np.asarray(records["z"]).astype("f8"))
    return cols, np.column_stack(arrs) if len(ra) else np.empty((0, len(cols)))


def _sort_rows(rows: np.ndarray) -> np.ndarray:
    if len(rows) == 0:
        return rows
    order = np.lexsort(rows.T[::-1])
    return rows[order]


def rows_equal_multiset(exp: np.ndarray, act: np.ndarray) -> str | None:
    """None if equal as multisets (coordinates to 1 ulp-ish, other columns
    bit-identical), else a description."""
    if exp.shape != act.shape:
        return f"shape {act.shape} != expected {exp.shape}"
    if len(exp) == 0:
        return None
    e, a = _sort_rows(exp), _sort_rows(act)
    if np.array_equal(e, a):
        return None
    # tolerant comparison of the two coordinate columns only
    if exp.shape[1] > 2 and not np.array_equal(e[:, 2:], a[:, 2:]):
        # attribute columns must match bit for bit; re-sort on them to be sure
        ee = e[np.lexsort(e[:, 2:].T[::-1])][:, 2:]
        aa = a[np.lexsort(a[:, 2:].T[::-1])][:, 2:]
        if not np.array_equal(ee, aa):
            return "weight/redshift columns differ"
    if not np.allclose(e[:, :2], a[:, :2], rtol=4e-16, atol=4e-16):
        bad = int(np.argmax(np.abs(e[:, :2] - a[:, :2]).sum(axis=1)))
        return f"coordinates differ, e.g. expected {e[bad].tolist()} got {a[bad].tolist()}"
    if exp.shape[1] > 2 and not np.array_equal(e[:, 2:], a[:, 2:]):
        return "rows pair coordinates with other attributes than the input does"
    return None


def expected_partition(
    records: dict,
    *,
    degrees: bool = True,
    centers_rad: np.ndarray | None = None,
    patch_ids=None,
) -> tuple[list, dict[int, np.ndarray], np.ndarray]:
    """Expected per-patch rows.  Returns (columns, {pid: rows}, ambiguous_rows)
    where ambiguous rows (ties between two centres) are excluded from the
    per-patch expectation and returned separately."""
    cols, rows = expected_rows(records, degrees)
    if patch_ids is not None:
        ids = np.asarray(patch_ids).astype(np.int64)
        amb = np.zeros(len(rows), dtype=bool)
    else:
        ids, amb = nearest_center(rows[:, :2], centers_rad)
    parts = {}
    for pid in np.unique(ids[~amb]) if len(rows) else []:
        parts[int(pid)] = rows[(ids == pid) & ~amb]
    return cols, parts, rows[amb]


def compare_cache(
    cache: dict[int, tuple[list, np.ndarray]],
    cols: list,
    parts: dict[int, np.ndarray],
    ambiguous: np.ndarray,
) -> list[str]:
    """Compare a cache read with ``read_cache`` against the expectation."""
    problems = []
    for pid, (c, _) in cache.items():
        if c != cols:
            problems.append(f"patch {pid}: columns {c} != expected {cols}")
    if problems:
        return problems
    if len(ambiguous) == 0:
        if set(cache) != set(parts):
            problems.append(
                f"patch ids {sorted(cache)} != expected {sorted(parts)}"
            )
        for pid in sorted(set(cache) & set(parts)):
            msg = rows_equal_multiset(parts[pid], cache[pid][1])
            if msg:
                problems.append(f"patch {pid}: {msg}")
    else:
        # records with a tie may sit in either patch: every unambiguous record
        # must be where expected, and the union must be the whole input
        allexp = np.concatenate([*parts.values(), ambiguous]) if parts else ambiguous
        allact = (
            np.concatenate([rows for _, rows in cache.values()])
            if cache
            else np.empty((0, len(cols)))
        )
        msg = rows_equal_multiset(allexp, allact)
        if msg:
            problems.append(f"union of patches: {msg}")
        for pid, exp in parts.items():
            if pid not in cache:
                problems.append(f"patch {pid} missing")
                continue
            act = cache[pid][1]
            if len(act) < len(exp):
                problems.append(f"patch {pid}: too few records")
    return problems


def total_multiset_problem(cache, cols, records, degrees=True) -> str | None:
    """Union over all patches equals the input (used where the partition itself
    is defined by the catalog, i.e. generated centres)."""
    c, rows = expected_rows(records, degrees)
    if c != cols:
        return f"columns {cols} != expected {c}"
    allact = (
        np.concatenate([rows_ for _, rows_ in cache.values()])
        if cache
        else np.empty((0, len(c)))
    )
    return rows_equal_multiset(rows, allact)


# ----------------------------------------------------- metadata invariant
def angular_distance(radec1: np.ndarray, radec2: np.ndarray) -> np.ndarray:
    a, b = to_3d(np.atleast_2d(radec1)), to_3d(np.atleast_2d(radec2))
    chord = np.sqrt(((a - b) ** 2).sum(axis=1))
    return 2.0 * np.arcsin(np.clip(chord / 2.0, 0.0, 1.0))


def metadata_problems(catalog, given_centers_rad: np.ndarray | None = None) -> list[str]:
    """C12 invariant on a catalog object: stored count / weight sum / radius /
    centre describe the patch's records; ``keys()`` are 0..N-1 and the centres
    are the given ones in order when centres were given."""
    problems = []
    keys = list(catalog.keys())
    if given_centers_rad is not None:
        if keys != list(range(len(given_centers_rad))):
            problems.append(
                f"keys {keys} != 0..{len(given_centers_rad) - 1} for given centres"
            )
    centers = np.asarray(catalog.get_centers().data).reshape(-1, 2)
    for i, pid in enumerate(keys):
        patch = catalog[pid]
        cols, rows = read_data_bin(os.path.join(str(patch.cache_path), "data.bin"))
        meta = patch.meta
        if int(meta.num_records) != len(rows):
            problems.append(f"patch {pid}: num_records {meta.num_records} != {len(rows)}")
        sw = float(rows[:, cols.index("w")].sum()) if "w" in cols else float(len(rows))
        if not np.isclose(float(meta.sum_weights), sw, rtol=1e-12, atol=0.0):
            problems.append(f"patch {pid}: sum_weights {meta.sum_weights} != {sw}")
        c = np.asarray(meta.center.data).reshape(2)
        r = float(np.asarray(meta.radius.data).reshape(-1)[0])
        if len(rows):
            d = angular_distance(rows[:, :2], c[None, :])
            if d.max() > r * (1 + 1e-9) + 1e-12:
                problems.append(
                    f"patch {pid}: record at {d.max():.6g} rad outside radius {r:.6g}"
                )
        if not np.array_equal(centers[i], c):
            problems.append(f"patch {pid}: get_centers()[{i}] != patch.meta.center")
        if given_centers_rad is not None and pid < len(given_centers_rad):
            g = np.asarray(given_centers_rad[pid], dtype="f8")
            gd = float(angular_distance(c[None, :], g[None, :])[0])
            if gd > 1e-12:
                problems.append(
                    f"patch {pid}: centre {c.tolist()} is not given centre {pid} {g.tolist()}"
                )
    return problems


def partition_reproduced_problems(catalog) -> list[str]:
    """The catalog's reported centres reproduce its own partition: every record
    of patch i has centre i as (one of) its nearest centres."""
    problems = []
    keys = list(catalog.keys())
    centers = np.asarray(catalog.get_centers().data).reshape(-1, 2)
    for i, pid in enumerate(keys):
        cols, rows = read_data_bin(os.path.join(str(catalog[pid].cache_path), "data.bin"))
        if len(rows) == 0:
            continue
        p, c = to_3d(rows[:, :2]), to_3d(centers)
        d2 = ((p[:, None, :] - c[None, :, :]) ** 2).sum(axis=2)
        best = d2.min(axis=1)
        mine = d2[:, i]
        bad = mine > best + 1e-12 * np.maximum(best, 1e-30) + 1e-18
        if bad.any():
            problems.append(
                f"patch {pid}: {int(bad.sum())} records are nearer to another reported centre"
            )
    return problems


# ------------------------------------------------------ result comparison
def corrfunc_state(cf) -> dict:
    """Flatten a CorrFunc into plain arrays (bitwise comparison)."""
    out = {}
    for kind in ("dd", "dr", "rd", "rr"):
        nc = getattr(cf, kind)
        if nc is None:
            out[kind] = None
            continue
        out[kind] = dict(
            counts=np.array(nc.counts.counts),
            sw1=np.array(nc.sum_weights.sum_weights1),
            sw2=np.array(nc.sum_weights.sum_weights2),
            auto=bool(nc.auto),
            edges=np.array(nc.binning.edges),
            closed=str(nc.binning.closed),
        )
    return out


def states_equal(a, b, path="") -> str | None:
    """Deep bitwise comparison of nested dict/list/array/scalar states."""
    if isinstance(a, dict) and isinstance(b, dict):
        if set(a) != set(b):
            return f"{path}: keys {sorted(a)} != {sorted(b)}"
        for k in a:
            msg = states_equal(a[k], b[k], f"{path}.{k}")
            if msg:
                return msg
        return None
    if isinstance(a, (list, tuple)) and isinstance(b, (list, tuple)):
        if len(a) != len(b):
            return f"{path}: length {len(a)} != {len(b)}"
        for i, (x, y) in enumerate(zip(a, b)):
            msg = states_equal(x, y, f"{path}[{i}]")
            if msg:
                return msg
        return None
    if isinstance(a, np.ndarray) or isinstance(b, np.ndarray):
        a, b = np.asarray(a), np.asarray(b)
        if a.shape != b.shape:
            return f"{path}: shape {a.shape} != {b.shape}"
        if a.dtype.kind == "f" or b.dtype.kind == "f":
            if not np.array_equal(a, b, equal_nan=True):
                return f"{path}: arrays differ"
        elif not np.array_equal(a, b):
            return f"{path}: arrays differ"
        return None
    if a is None or b is None:
        return None if a is b else f"{path}: {a!r} != {b!r}"
    if isinstance(a, float) and isinstance(b, float):
        if a == b or (a != a and b != b):
            return None
        return f"{path}: {a!r} != {b!r}"
    return None if a == b else f"{path}: {a!r} != {b!r}"


def sampled_state(sd) -> dict:
    return dict(
        edges=np.array(sd.binning.edges),
        closed=str(sd.binning.closed),
        data=np.array(sd.data),
        samples=np.array(sd.samples),
    )


def catalog_state(cat) -> dict:
    return dict(
        keys=list(cat.keys()),
        num_records=list(cat.get_num_records()),
        sum_weights=list(cat.get_sum_weights()),
        centers=np.array(cat.get_centers().data),
        radii=np.array(cat.get_radii().data),
    )


def tree_state(cat) -> dict:
    """Per patch and bin (num_records, sum_weights) of the cached trees plus the
    stored binning."""
    from yaw.catalog.trees import BinnedTrees

    out = {}
    for pid, patch in cat.items():
        bt = BinnedTrees(patch)
        trees = bt.trees
        if not bt.is_binned():
            trees = (trees,)
        out[pid] = dict(
            edges=None if bt.binning is None else np.array(bt.binning.edges),
            closed=None if bt.binning is None else str(bt.binning.closed),
            n=[int(t.num_records) for t in trees],
            sw=[float(t.sum_weights) for t in trees],
            data=[np.array(t.data) for t in trees],
        )
    return out


# ------------------------------------------------- leave-one-out reference
def loo_sum(arr: np.ndarray) -> tuple[np.ndarray, np.ndarray]:
    """arr[b, i, j] -> (total[b], samples[k, b]) by explicit deletion."""
    nb, npatch, _ = arr.shape
    total = np.zeros(nb)
    for i in range(npatch):
        for j in range(npatch):
            total += arr[:, i, j]
    samples = np.zeros((npatch, nb))
    for k in range(npatch):
        for i in range(npatch):
            if i == k:
                continue
            for j in range(npatch):
                if j == k:
                    continue
                samples[k] += arr[:, i, j]
    return total, samples


def weights_matrix(sw1: np.ndarray, sw2: np.ndarray, auto: bool) -> np.ndarray:
    nb, npatch = sw1.shape
    arr = np.zeros((nb, npatch, npatch))
    for i in range(npatch):
        for j in range(npatch):
            if auto:
                if j < i:
                    continue
                f = 0.5 if i == j else 1.0
            else:
                f = 1.0
            arr[:, i, j] = f * sw1[:, i] * sw2[:, j]
    return arr


def loo_normalised(state: dict) -> tuple[np.ndarray, np.ndarray]:
    with np.errstate(all="ignore"):
        ct, cs = loo_sum(state["counts"])
        wt, ws = loo_sum(weights_matrix(state["sw1"], state["sw2"], state["auto"]))
        return ct / wt, cs / ws


def loo_corrfunc(cfstate: dict) -> tuple[np.ndarray, np.ndarray]:
    """Reference CorrFunc.sample(): estimator applied to value and samples."""
    vals, smps = {}, {}
    for kind, st in cfstate.items():
        if st is not None:
            vals[kind], smps[kind] = loo_normalised(st)

    def est(d):
        with np.errstate(all="ignore"):
            if "rr" in d:
                dr = d.get("dr")
                rd = d.get("rd")
                if dr is None and rd is not None:
                    # Landy-Szalay needs dr; yaw's landy_szalay requires it
                    raise KeyError("dr")
                if rd is None:
                    rd = dr
                return (d["dd"] - dr - rd + d["rr"]) / d["rr"]
            mixed = d["rd"] if "rd" in d else d["dr"]
            return d["dd"] / mixed - 1.0

    return est(vals), est(smps)


def jackknife_cov(samples: np.ndarray) -> np.ndarray:
    n = samples.shape[0]
    mean = samples.mean(axis=0)
    d = samples - mean
    cov = np.zeros((samples.shape[1], samples.shape[1]))
    for k in range(n):
        cov += np.outer(d[k], d[k])
    return cov * (n - 1) / n


def allclose_nan(a, b, rtol=1e-9, atol=1e-12) -> bool:
    a, b = np.asarray(a, dtype="f8"), np.asarray(b, dtype="f8")
    if a.shape != b.shape:
        return False
    with np.errstate(all="ignore"):
        return bool(np.allclose(a, b, rtol=rtol, atol=atol, equal_nan=True))


def close_where_ref_finite(got, ref, rtol=1e-9, atol=1e-12) -> bool:
    """Elementwise closeness wherever the reference value is finite.  Elements
    whose reference is NaN/inf come from divisions by an (exactly or nearly) zero
    normalisation; whether rounding noise turns them into NaN, +inf or -inf
    depends on the order of summation and is not a property of the code under
    test.  A non-finite *result* where the reference is finite is a mismatch."""
    got, ref = np.asarray(got, dtype="f8"), np.asarray(ref, dtype="f8")
    if got.shape != ref.shape:
        return False
    m = np.isfinite(ref)
    with np.errstate(all="ignore"):
        return bool(np.all(np.isfinite(got[m])) and np.allclose(got[m], ref[m], rtol=rtol, atol=atol))


def histogram_reference(cache: dict, edges, closed: str) -> np.ndarray:
    """Per-patch weighted redshift histogram under the closed-side rule,
    counts[patch_index, bin] with patches in increasing id order."""
    edges = np.asarray(edges, dtype="f8")
    out = np.zeros((len(cache), len(edges) - 1))
    for row, pid in enumerate(sorted(cache)):
        cols, rows = cache[pid]
        z = rows[:, cols.index("z")]
        w = rows[:, cols.index("w")] if "w" in cols else np.ones(len(rows))
        for b in range(len(edges) - 1):
            lo, hi = edges[b], edges[b + 1]
            m = (z > lo) & (z <= hi) if closed == "right" else (z >= lo) & (z < hi)
            out[row, b] = w[m].sum()
    return out
