"""
Workload generation shared by the E1/E3 checks: tiny seeded data sets, patch
definitions, input sources in every supported format, measurement configs.

Everything is a pure function of explicit (JSON-able) parameters so that a
replay file that lists them reproduces the workload without re-deriving it from
a seed.  Data arrays are always generated at a fixed maximum length and then
sliced, so that shrinking ``n`` keeps a prefix of the same records.
"""

from __future__ import annotations

import os

import numpy as np

NMAX = 400

REGIONS = {
    # name: (ra_min, ra_max, dec_min, dec_max) in degrees
    "box": (10.0, 30.0, -10.0, 10.0),
    "wrap": (350.0, 370.0, -8.0, 8.0),
    "npole": (0.0, 360.0, 75.0, 90.0),
    "spole": (0.0, 360.0, -90.0, -78.0),
    "wide": (0.0, 360.0, -90.0, 90.0),
    "strip": (100.0, 160.0, 20.0, 30.0),
    # compact clumps 3.3 degrees apart (sigma 0.4 deg, clipped at 2 sigma) along dec = 25: whether neighbouring
    # patches are linked depends on the angular size of the physical scale, i.e. on redshift
    "clumps": (100.0, 142.0, 22.0, 28.0),
}
CLUMP_SPACING_DEG = 3.3
CLUMP_SIGMA_DEG = 0.4


def clump_centers(k: int) -> np.ndarray:
    """(k, 2) array in degrees"""
    return np.column_stack([100.0 + CLUMP_SPACING_DEG * np.arange(k), np.full(k, 25.0)])


def gen_records(
    data_seed: int,
    n: int,
    *,
    region: str = "box",
    has_w: bool = True,
    has_z: bool = True,
    zedges=None,
    zpad: float = 0.04,
    w_dtype: str = "f8",
    z_dtype: str = "f8",
    edge_frac: float = 0.12,
    coord_dtype: str = "f8",
    w_kind: str = "dyadic",
    nclumps: int = 4,
) -> dict[str, np.ndarray]:
    """Columns ``ra``/``dec`` in degrees and optional ``w``/``z``.

    Weights are dyadic rationals (multiples of 1/4 in [0.25, 4]) so that sums
    and products of weights are exact in float64 irrespective of the order of
    summation.  A fraction of the redshifts sits exactly on a bin edge.
    """
    rng = np.random.default_rng([int(data_seed) & 0xFFFFFFFF, 0xDA7A])
    ra0, ra1, de0, de1 = REGIONS[region]
    u = rng.uniform(0.0, 1.0, NMAX)
    v = rng.uniform(0.0, 1.0, NMAX)
    ra = (ra0 + u * (ra1 - ra0)) % 360.0
    s0, s1 = np.sin(np.deg2rad(de0)), np.sin(np.deg2rad(de1))
    dec = np.rad2deg(np.arcsin(np.clip(s0 + v * (s1 - s0), -1.0, 1.0)))
    # a few points exactly on the poles / the wrap for the regions that have them
    special = rng.integers(0, NMAX, 6)
    if region in ("npole", "wide"):
        dec[special[0]] = 90.0
    if region in ("spole", "wide"):
        dec[special[1]] = -90.0
    if region in ("wrap", "wide", "npole", "spole"):
        ra[special[2]] = 0.0
        ra[special[3]] = 359.99999999999994
    if region == "clumps":
        # (separate generator: leaves the streams of all other regions untouched)
        crng = np.random.default_rng([int(data_seed) & 0xFFFFFFFF, 0xC1A9])
        which = crng.integers(0, max(1, nclumps), NMAX)
        cc = clump_centers(max(1, nclumps))
        ra = cc[which, 0] + CLUMP_SIGMA_DEG * np.clip(crng.normal(size=NMAX), -2.0, 2.0)
        dec = cc[which, 1] + CLUMP_SIGMA_DEG * np.clip(crng.normal(size=NMAX), -2.0, 2.0)
    if coord_dtype.startswith("i"):
        ra, dec = np.floor(ra), np.clip(np.rint(dec), -90, 90)
    out = {"ra": ra[:n].astype(coord_dtype), "dec": dec[:n].astype(coord_dtype)}
    wq = rng.integers(1, 17, NMAX)  # always drawn: keeps streams aligned
    zu = rng.uniform(0.0, 1.0, NMAX)
    onedge = rng.uniform(0.0, 1.0, NMAX) < edge_frac
    edgeidx = rng.integers(0, 64, NMAX)
    if has_w:
        if w_dtype.startswith(("i", "u")):
            w = ((wq - 1) % 4 + 1).astype(w_dtype)
        else:
            w = (wq / 4.0).astype(w_dtype)
            if w_kind == "float":
                # not exactly representable: sums depend on the order of summation
                w = (w * 1.1 + 0.013).astype(w_dtype)
        out["w"] = w[:n].copy()
    if has_z:
        if zedges is None:
            zedges = [0.1, 0.4, 0.7, 1.0]
        zedges = np.asarray(zedges, dtype="f8")
        lo, hi = zedges[0] - zpad, zedges[-1] + zpad
        z = lo + zu * (hi - lo)
        z = np.where(onedge, zedges[edgeidx % len(zedges)], z)
        out["z"] = z.astype(z_dtype)[:n].copy()
    return out


def gen_centers(center_seed: int, k: int, region: str = "box") -> np.ndarray:
    """``k`` patch centres inside the region, (k, 2) array in radian."""
    if region == "clumps":
        return np.deg2rad(clump_centers(k))
    rng = np.random.default_rng([int(center_seed) & 0xFFFFFFFF, 0xCE27])
    ra0, ra1, de0, de1 = REGIONS[region]
    u = rng.uniform(0.0, 1.0, 16)
    v = rng.uniform(0.0, 1.0, 16)
    ra = (ra0 + u * (ra1 - ra0)) % 360.0
    s0, s1 = np.sin(np.deg2rad(de0)), np.sin(np.deg2rad(de1))
    dec = np.rad2deg(np.arcsin(np.clip(s0 + v * (s1 - s0), -1.0, 1.0)))
    return np.deg2rad(np.column_stack([ra, dec]))[:k].copy()


def to_3d(radec: np.ndarray) -> np.ndarray:
    ra, dec = radec[:, 0], radec[:, 1]
    cd = np.cos(dec)
    return np.column_stack([np.cos(ra) * cd, np.sin(ra) * cd, np.sin(dec)])


def nearest_center(radec_rad: np.ndarray, centers_rad: np.ndarray):
    """Independent nearest-centre model.  Returns (ids, ambiguous) where
    ``ambiguous`` marks records whose two smallest chord distances differ by
    less than 1e-12 relative (a tie is not a defect)."""
    p = to_3d(radec_rad)
    c = to_3d(centers_rad)
    d2 = ((p[:, None, :] - c[None, :, :]) ** 2).sum(axis=2)
    ids = np.argmin(d2, axis=1)
    if d2.shape[1] > 1:
        part = np.partition(d2, 1, axis=1)
        amb = (part[:, 1] - part[:, 0]) <= 1e-12 * np.maximum(part[:, 1], 1e-300)
    else:
        amb = np.zeros(len(p), dtype=bool)
    return ids, amb


def ensure_nonempty_centers(records: dict, centers: np.ndarray) -> np.ndarray:
    """Move every centre that attracts no record onto a record that is not
    the only member of its patch (fault-free workloads need non-empty patches)."""
    centers = centers.copy()
    radec = np.deg2rad(np.column_stack([records["ra"], records["dec"]]))
    n = len(radec)
    if n < len(centers):
        centers = centers[: max(n, 1)]
    if n == 0:
        return centers
    for _ in range(4 * len(centers)):
        ids, _ = nearest_center(radec, centers)
        counts = np.bincount(ids, minlength=len(centers))
        empty = np.flatnonzero(counts == 0)
        if len(empty) == 0:
            return centers
        big = int(np.argmax(counts))
        members = np.flatnonzero(ids == big)
        centers[empty[0]] = radec[members[len(members) // 2]]
    ids, _ = nearest_center(radec, centers)
    keep = np.unique(ids)
    return centers[keep]


def make_dataframe(records: dict, patch_ids=None):
    import pandas as pd

    cols = dict(records)
    if patch_ids is not None:
        cols["pid"] = patch_ids
    return pd.DataFrame(cols)


def parquet_row_group_size(n: int, pq_seed: int, pq_rowgroup=None) -> int:
    if isinstance(pq_rowgroup, (list, tuple)):
        return max(1, int(pq_rowgroup[0]))
    if pq_rowgroup:
        return max(1, int(pq_rowgroup))
    return 1 + (int(pq_seed) % max(1, min(n, 97)))


def write_source(kind: str, path: str, records: dict, patch_ids=None, *, pq_seed: int = 0, pq_rowgroup: int | None = None,
                 fits_hdu: int = 1):
    """Write the records as FITS / HDF5 / Parquet input file.  ``fits_hdu`` > 1 puts the table into
    that extension, behind decoy tables with the same columns but fewer, other rows."""
    cols = dict(records)
    if patch_ids is not None:
        cols["pid"] = np.asarray(patch_ids)
    if kind == "fits":
        from astropy.io import fits

        fcols = [
            fits.Column(
                name=k, array=v, format=_fits_fmt(v.dtype),
                **({"bzero": 2 ** (8 * v.dtype.itemsize - 1)} if v.dtype.kind == "u" else {}),
            )
            for k, v in cols.items()
        ]
        table = fits.BinTableHDU.from_columns(fcols)
        if fits_hdu <= 1:
            table.writeto(path, overwrite=True)
        else:
            n = len(next(iter(cols.values()))) if cols else 0
            m = max(1, n // 3)
            decoys = []
            for j in range(fits_hdu - 1):
                dcols = [
                    fits.Column(
                        name=k, array=np.asarray(v)[::-1][: m + j].copy(), format=_fits_fmt(v.dtype),
                        **({"bzero": 2 ** (8 * v.dtype.itemsize - 1)} if v.dtype.kind == "u" else {}),
                    )
                    for k, v in cols.items()
                ]
                decoys.append(fits.BinTableHDU.from_columns(dcols))
            fits.HDUList([fits.PrimaryHDU(), *decoys, table]).writeto(path, overwrite=True)
    elif kind == "hdf5":
        import h5py

        with h5py.File(path, "w") as f:
            for k, v in cols.items():
                f.create_dataset(k, data=v)
    elif kind == "parquet":
        import pyarrow as pa
        from pyarrow import parquet

        table = pa.table(cols)
        rg = parquet_row_group_size(len(table), pq_seed, pq_rowgroup)
        if isinstance(pq_rowgroup, (list, tuple)):
            # explicit, possibly non-uniform row groups (e.g. merged tiles): one write per group
            with parquet.ParquetWriter(path, table.schema) as writer:
                pos, sizes = 0, list(pq_rowgroup)
                while pos < len(table):
                    size = max(1, int(sizes.pop(0) if sizes else pq_rowgroup[-1]))
                    writer.write_table(table.slice(pos, size), row_group_size=size)
                    pos += size
        else:
            parquet.write_table(table, path, row_group_size=rg)
    else:
        raise ValueError(kind)
    return path


def _fits_fmt(dtype) -> str:
    # (unsigned integers are stored by astropy as signed + TZERO: the reader gets them back
    # already in native byte order)
    return {"f8": "D", "f4": "E", "i2": "I", "i4": "J", "i8": "K", "u2": "I", "u4": "J"}[np.dtype(dtype).str[1:]]


SOURCE_EXT = {"fits": ".fits", "hdf5": ".hdf5", "parquet": ".pqt"}


class TracedFrame:
    """Data-frame-like source exposing exactly the interface ``DataFrameReader``
    uses (``len``, slicing, ``[column].to_numpy()``) and logging every slice
    request together with the simulated process that issued it."""

    def __init__(self, df, trace: list, fail_at: int | None = None) -> None:
        self._df = df
        self._trace = trace
        self._fail_at = fail_at  # the k-th slice request fails once with MemoryError (failing allocation)
        self._nslices = 0
        self.failed = 0

    def __len__(self) -> int:
        return len(self._df)

    def __getitem__(self, item):
        from sim.core import current_task

        t = current_task()
        who = t.name if t is not None else "-"
        if isinstance(item, slice):
            self._nslices += 1
            if self._fail_at is not None and self._nslices == self._fail_at:
                self.failed += 1
                self._trace.append((who, "failed", item.start, item.stop))
                raise MemoryError(f"simulated allocation failure reading records {item.start}:{item.stop}")
            self._trace.append((who, item.start, item.stop, item.step))
            return self._df[item]
        self._trace.append((who, "column", str(item), None))
        return self._df[item]


def column_kwargs(records: dict, patch_name: bool = False) -> dict:
    kw = dict(ra_name="ra", dec_name="dec")
    if "w" in records:
        kw["weight_name"] = "w"
    if "z" in records:
        kw["redshift_name"] = "z"
    if patch_name:
        kw["patch_name"] = "pid"
    return kw


class SeededTreecorr:
    """Stand-in for the ``treecorr`` module inside ``yaw.catalog.catalog``: the
    real k-means, but seeded and single-threaded (treecorr documents its patch
    creation as non-deterministic otherwise)."""

    def __init__(self, seed: int) -> None:
        import treecorr

        self._treecorr = treecorr
        self._seed = seed
        self.calls = 0
        self.degenerate = False  # k-means returned a non-finite centre (a cluster without points)

    def Catalog(self, *args, **kwargs):  # noqa: N802
        self.calls += 1
        kwargs = dict(kwargs)
        kwargs["rng"] = np.random.default_rng(self._seed)
        kwargs["config"] = dict(num_threads=1)
        cat = self._treecorr.Catalog(*args, **kwargs)
        try:
            if kwargs.get("npatch"):
                pc = np.asarray(cat.patch_centers, dtype="f8")
                # a cluster without points comes back as NaN or as the zero vector
                if not np.all(np.isfinite(pc)) or np.any(np.sqrt((pc**2).sum(axis=-1)) < 1e-6):
                    self.degenerate = True
        except Exception:  # noqa: BLE001
            self.degenerate = True
        return cat

    def __getattr__(self, name):
        return getattr(self._treecorr, name)


def make_config(spec: dict):
    """spec: dict(rmin, rmax, unit, rweight, resolution, edges, closed)"""
    import yaw

    if spec.get("method"):
        # generated binning: edges are computed by the library from (zmin, zmax, num_bins, method)
        return yaw.Configuration.create(
            rmin=spec["rmin"], rmax=spec["rmax"], unit=spec.get("unit", "deg"), rweight=spec.get("rweight"),
            resolution=spec.get("resolution"), zmin=spec["edges"][0], zmax=spec["edges"][-1],
            num_bins=len(spec["edges"]) - 1, method=spec["method"], closed=spec.get("closed", "right"),
        )
    return yaw.Configuration.create(
        rmin=spec["rmin"],
        rmax=spec["rmax"],
        unit=spec.get("unit", "deg"),
        rweight=spec.get("rweight"),
        resolution=spec.get("resolution"),
        edges=spec["edges"],
        closed=spec.get("closed", "right"),
    )


SCALE_SPECS = [
    dict(rmin=0.5, rmax=4.0, unit="deg"),
    dict(rmin=[0.3, 1.0], rmax=[2.0, 6.0], unit="deg"),
    dict(rmin=20.0, rmax=300.0, unit="arcmin"),
    dict(rmin=[0.5, 0.5, 2.0], rmax=[1.0, 5.0, 5.0], unit="deg"),
    dict(rmin=0.01, rmax=0.08, unit="rad"),
    dict(rmin=0.5, rmax=5.0, unit="deg", rweight=-0.8, resolution=8),
    dict(rmin=20000.0, rmax=120000.0, unit="kpc"),
    dict(rmin=30.0, rmax=200.0, unit="Mpc/h"),
]

EDGE_SPECS = [
    [0.1, 0.4, 0.7, 1.0],
    [0.1, 1.0],
    [0.1, 0.25, 0.5, 0.75, 1.0],
    [0.2, 0.3, 0.45, 0.8, 0.9, 1.0],
    [0.1, 0.55, 1.0],
]


def scratch_root() -> str:
    base = "/dev/shm" if os.path.isdir("/dev/shm") and os.access("/dev/shm", os.W_OK) else None
    if base is None:
        import tempfile

        base = tempfile.gettempdir()
    return base
