"""
Process-local module state for the simulated multiprocessing world.

Simulated processes are threads of one interpreter and therefore share module
globals, whereas real forked workers get a *copy* of the parent's memory at
fork time and their later mutations are invisible to the parent (and vice
versa).  Code whose correctness depends on that difference -- typically a
module-level memo (``functools.lru_cache``) that is filled in the parent,
invalidated in a short-lived worker and inherited, stale, by the next pool --
would look fine in a shared-memory simulation.

``ProcLocalMemos`` closes that gap for memo caches: while installed, every
``functools.lru_cache`` wrapper found at module level (or as a class attribute)
of the ``yaw`` package is replaced by a proxy that keeps one memo *per simulated
process*; ``fork(parent, child)`` copies the parent's memo into the child
(fork semantics), ``cache_clear`` only clears the calling process's memo.
Eviction (``maxsize``) is not modelled.

Other module-level mutable containers cannot be virtualised generically; they
are fingerprinted before and after a simulation and a change made by a
non-main simulated process is reported as probe ``module_state_mutated_by_worker``.
"""

from __future__ import annotations

import functools
import sys
import types

from sim.core import current_task

_LRU_TYPE = type(functools.lru_cache(maxsize=1)(lambda: None))
ROOT = "root"


def current_process_key():
    """The simulated process the calling thread belongs to.  Code outside any
    simulation and the ``main`` task of a simulation are the same (parent)
    process."""
    t = current_task()
    if t is None or t.kind == "main":
        return ROOT
    return (id(t.sim), t.tid)


class _MemoProxy:
    def __init__(self, wrapped) -> None:
        self.__wrapped__ = wrapped
        functools.update_wrapper(self, wrapped)
        self._memos: dict = {}
        self.hits = 0

    def _memo(self) -> dict:
        return self._memos.setdefault(current_process_key(), {})

    def __call__(self, *args, **kwargs):
        key = (args, tuple(sorted(kwargs.items())))
        memo = self._memo()
        try:
            if key in memo:
                self.hits += 1
                return memo[key]
        except TypeError:  # unhashable argument: lru_cache would raise as well
            raise
        value = self.__wrapped__(*args, **kwargs)
        memo[key] = value
        return value

    def cache_clear(self) -> None:
        self._memo().clear()

    def cache_info(self):
        return (self.hits, 0, None, len(self._memo()))

    def __get__(self, obj, objtype=None):
        if obj is None:
            return self
        return types.MethodType(self, obj)

    def fork(self, parent_key, child_key) -> None:
        self._memos[child_key] = dict(self._memos.get(parent_key, {}))


class ProcLocalMemos:
    """Context manager; may stay installed across several simulations and the
    sequential code between them (one *session* of a history)."""

    def __init__(self, package: str = "yaw") -> None:
        self.package = package
        self.replaced: list[tuple] = []
        self.proxies: list[_MemoProxy] = []

    def __enter__(self) -> "ProcLocalMemos":
        for name, mod in list(sys.modules.items()):
            if mod is None or not (name == self.package or name.startswith(self.package + ".")):
                continue
            for attr, val in list(vars(mod).items()):
                if isinstance(val, _LRU_TYPE):
                    self._replace(mod, attr, val)
                elif isinstance(val, type) and getattr(val, "__module__", "").startswith(self.package):
                    for cattr, cval in list(vars(val).items()):
                        if isinstance(cval, _LRU_TYPE):
                            self._replace(val, cattr, cval)
        return self

    def _replace(self, owner, attr, val) -> None:
        for proxy in self.proxies:
            if proxy.__wrapped__ is getattr(val, "__wrapped__", None):
                setattr(owner, attr, proxy)
                self.replaced.append((owner, attr, val))
                return
        proxy = _MemoProxy(val.__wrapped__)
        self.proxies.append(proxy)
        self.replaced.append((owner, attr, val))
        setattr(owner, attr, proxy)

    def __exit__(self, *exc) -> None:
        for owner, attr, val in reversed(self.replaced):
            try:
                setattr(owner, attr, val)
            except (AttributeError, TypeError):
                pass
        self.replaced.clear()

    def fork(self, parent_key, child_key) -> None:
        for proxy in self.proxies:
            proxy.fork(parent_key, child_key)


_ACTIVE: ProcLocalMemos | None = None


def install() -> ProcLocalMemos:
    global _ACTIVE
    if _ACTIVE is None:
        _ACTIVE = ProcLocalMemos().__enter__()
    return _ACTIVE


def uninstall() -> None:
    global _ACTIVE
    if _ACTIVE is not None:
        _ACTIVE.__exit__(None, None, None)
        _ACTIVE = None


def on_spawn(parent_task, child_task) -> None:
    """Called by the scheduler when a simulated process is created (fork)."""
    if _ACTIVE is None:
        return
    if parent_task is None or parent_task.kind == "main":
        pkey = ROOT
    else:
        pkey = (id(parent_task.sim), parent_task.tid)
    _ACTIVE.fork(pkey, (id(child_task.sim), child_task.tid))


def module_state_fingerprint(package: str = "yaw") -> dict:
    """Shallow fingerprint of module-level mutable containers."""
    out = {}
    for name, mod in list(sys.modules.items()):
        if mod is None or not (name == package or name.startswith(package + ".")):
            continue
        for attr, val in list(vars(mod).items()):
            if isinstance(val, (dict, list, set)) and not attr.startswith("__"):
                try:
                    out[f"{name}.{attr}"] = (type(val).__name__, len(val), repr(sorted(map(repr, val)))[:2000])
                except Exception:  # noqa: BLE001
                    out[f"{name}.{attr}"] = (type(val).__name__, len(val), "?")
    return out
