"""
Check driver shared by all properties: runs the generated cases in forked
children, groups and minimises violations, writes replay files, matches them
against /verif/known_findings.json, runs the determinism self-test, writes the
evidence file and decides the exit status.

Exit status: 0 = property held on everything explored (possibly with
KNOWN-FINDING lines), 1 = a violation that is not listed (VIOLATION line),
2 = harness problem (never a verdict about the property).
"""

from __future__ import annotations

import hashlib
import json
import os
import sys
import time

from sim.runner import run_parallel

VERIF = os.path.dirname(os.path.dirname(os.path.abspath(__file__)))
KNOWN_FILE = os.path.join(VERIF, "known_findings.json")
# (overridable so that development sweeps against seeded changes or other seeds do not clobber
# the evidence of the registered runs)
REPLAY_DIR = os.environ.get("VERIF_REPLAY_DIR") or os.path.join(VERIF, "replays")
EVIDENCE_DIR = os.environ.get("VERIF_EVIDENCE_DIR") or os.path.join(VERIF, "evidence")


def canon(obj) -> str:
    return json.dumps(obj, sort_keys=True, separators=(",", ":"))


def load_known(prop: str) -> list[dict]:
    if not os.path.exists(KNOWN_FILE):
        return []
    with open(KNOWN_FILE) as f:
        data = json.load(f)
    return [e for e in data.get("findings", []) if e.get("property") == prop]


def match_known(signature: dict, known: list[dict]) -> dict | None:
    """A listed finding matches when every field of its signature equals the
    violation's.  ``fixed`` entries suppress nothing."""
    for entry in known:
        if entry.get("status") != "known":
            continue
        sig = entry.get("signature", {})
        if all(signature.get(k) == v for k, v in sig.items()):
            return entry
    return None


class Budget:
    def __init__(self, seconds: float) -> None:
        self.t0 = time.monotonic()
        self.end = self.t0 + seconds

    def left(self) -> float:
        return self.end - time.monotonic()

    def frac_deadline(self, frac: float) -> float:
        return self.t0 + (self.end - self.t0) * frac


def _eval(mod, cases, jobs, batch=4, case_timeout=120.0):
    return run_parallel(cases, mod.run_case, jobs=jobs, batch=batch, case_timeout=case_timeout)


def minimise(mod, case: dict, result: dict, jobs: int, budget_s: float, log) -> tuple[dict, dict]:
    """Greedy shrinking of the workload (property-specific candidates), then of
    the schedule (towards the canonical all-zero choice list).  A candidate is
    kept only if the same violation signature persists."""
    t_end = time.monotonic() + budget_s
    want = canon(result["signature"])

    def same(res) -> bool:
        return (
            res is not None
            and res.get("verdict") == "violation"
            and canon(res.get("signature")) == want
        )

    # pin the schedule so that workload shrinking cannot hide behind a re-roll
    cur, cur_res = dict(case), result
    if result.get("focus") is not None:
        cur["_focus"] = result["focus"]
    if result.get("history") is not None:
        cur["history"] = result["history"]
    if result.get("sessions") is not None:
        cur["sessions"] = result["sessions"]
    shrinks = getattr(mod, "shrinks", None)
    rounds = 0
    while shrinks is not None and time.monotonic() < t_end and rounds < 60:
        rounds += 1
        cands = list(shrinks(cur))[:48]
        if not cands:
            break
        res = _eval(mod, cands, jobs, batch=1)
        hit = next((i for i, r in enumerate(res) if same(r)), None)
        if hit is None:
            break
        cur, cur_res = cands[hit], res[hit]
    cur.pop("_focus", None)
    # schedule
    choices = cur_res.get("choices")
    if choices is not None and getattr(mod, "SCHEDULED", True) and time.monotonic() < t_end:
        base = dict(cur)
        base.pop("sched_seed", None)

        def with_sched(lst):
            c = dict(base)
            c["schedule"] = list(lst)
            return c

        best = list(choices)
        r0 = _eval(mod, [with_sched(best)], 1, batch=1)[0]
        if same(r0):
            cur, cur_res = with_sched(best), r0
            # shortest prefix (rest zeros)
            lo, hi = 0, len(best)
            while lo < hi and time.monotonic() < t_end:
                mid = (lo + hi) // 2
                r = _eval(mod, [with_sched(best[:mid])], 1, batch=1)[0]
                if same(r):
                    hi = mid
                    cur, cur_res = with_sched(best[:mid]), r
                else:
                    lo = mid + 1
            best = list(cur["schedule"])
            # zero out chunks
            size = max(1, len(best) // 2)
            while size >= 1 and time.monotonic() < t_end:
                cands, idxs = [], []
                for s in range(0, len(best), size):
                    if any(best[s : s + size]):
                        trial = best[:s] + [0] * len(best[s : s + size]) + best[s + size :]
                        cands.append(with_sched(trial))
                        idxs.append(trial)
                if cands:
                    res = _eval(mod, cands[:32], jobs, batch=1)
                    hit = next((i for i, r in enumerate(res) if same(r)), None)
                    if hit is not None:
                        best = idxs[hit]
                        cur, cur_res = cands[hit], res[hit]
                        continue
                size //= 2
            while best and best[-1] == 0:
                best.pop()
            final = with_sched(best)
            r = _eval(mod, [final], 1, batch=1)[0]
            if same(r):
                cur, cur_res = final, r
        else:
            log(f"note: explicit schedule did not reproduce the signature for {want[:80]}")
    return cur, cur_res


def write_replay(prop: str, engine: str, verif_seed: int, case: dict, res: dict, n: int, minimised: bool) -> str:
    os.makedirs(REPLAY_DIR, exist_ok=True)
    path = os.path.join(REPLAY_DIR, f"{prop}-{verif_seed}-{n}.json")
    doc = dict(
        property=prop,
        engine=engine,
        verif_seed=verif_seed,
        case=case,
        signature=res.get("signature"),
        detail=res.get("detail"),
        event_digest=res.get("digest"),
        trace_tail=res.get("tail"),
        minimised=minimised,
    )
    with open(path, "w") as f:
        json.dump(doc, f, indent=1, sort_keys=True)
    return path


def replay(mod, path: str) -> int:
    with open(path) as f:
        doc = json.load(f)
    res = _eval(mod, [doc["case"]], 1, batch=1)[0]
    prop = doc["property"]
    if res is None or res.get("verdict") == "harness_error":
        print(f"HARNESS-ERROR replay failed: {res}")
        return 2
    if res.get("verdict") != "violation":
        print(f"HARNESS-ERROR replay of {path} did not reproduce a violation (verdict={res.get('verdict')})")
        return 2
    if canon(res.get("signature")) != canon(doc.get("signature")):
        print(f"HARNESS-ERROR replay signature differs: {res.get('signature')} vs {doc.get('signature')}")
        return 2
    if doc.get("event_digest") and res.get("digest") != doc.get("event_digest"):
        print(f"HARNESS-ERROR replay digest differs: {res.get('digest')} vs {doc.get('event_digest')}")
        return 2
    print(f"reproduced: {res.get('detail')}")
    print(f"VIOLATION property={prop} replay={path}")
    return 1


def determinism_selftest(mod, cases: list, results: list, jobs: int, k: int, log) -> list[str]:
    """Re-run k cases in fresh children and compare event-log digests and
    verdicts.  (The full self-test in fresh interpreters under two
    PYTHONHASHSEEDs is ``check.py selftest``.)"""
    picks = [i for i, r in enumerate(results) if r is not None and r.get("digest")]
    step = max(1, len(picks) // max(1, k))
    picks = picks[::step][:k]
    if not picks:
        return []
    again = _eval(mod, [cases[i] for i in picks], jobs, batch=1)
    bad = []
    for i, r2 in zip(picks, again):
        r1 = results[i]
        if r2 is None or r2.get("digest") != r1.get("digest") or r2.get("verdict") != r1.get("verdict"):
            bad.append(
                f"case {i}: digest {r1.get('digest')} / {None if r2 is None else r2.get('digest')}, "
                f"verdict {r1.get('verdict')} / {None if r2 is None else r2.get('verdict')}"
            )
    return bad


def run_check(mod, tier: str, verif_seed: int, *, jobs: int = 16, runs: int | None = None) -> int:
    t0 = time.monotonic()
    prop = mod.PROP
    out = lambda *a: print(*a, flush=True)  # noqa: E731
    budget = Budget(float(os.environ.get("VERIF_BUDGET_S", mod.BUDGET[tier])))
    cases = mod.gen_cases(tier, verif_seed, runs)
    import yaw

    out(f"[{prop}] VERIF_SEED={verif_seed} tier={tier} cases={len(cases)} jobs={jobs} yaw={os.path.dirname(yaw.__file__)}")
    results = run_parallel(
        cases,
        mod.run_case,
        jobs=jobs,
        batch=getattr(mod, "BATCH", 10),
        case_timeout=getattr(mod, "CASE_TIMEOUT", 120.0),
        deadline=budget.frac_deadline(0.75),
    )
    done = [(c, r) for c, r in zip(cases, results) if r is not None]
    skipped = len(cases) - len(done)
    t_run = time.monotonic() - t0

    harness_errors = [(c, r) for c, r in done if r.get("verdict") == "harness_error"]
    violations = [(c, r) for c, r in done if r.get("verdict") == "violation"]
    discards = [(c, r) for c, r in done if r.get("verdict") == "discard"]
    oks = [(c, r) for c, r in done if r.get("verdict") == "ok"]

    # ---------------------------------------------------- determinism
    nondet = determinism_selftest(
        mod, cases, results, jobs, 6 if tier == "quick" else 24, out
    )

    # ------------------------------------------------------ violations
    known = load_known(prop)
    groups: dict[str, list] = {}
    for c, r in violations:
        groups.setdefault(canon(r["signature"]), []).append((c, r))
    unlisted = 0
    known_hits: dict[str, int] = {}
    reports = []
    size_of = getattr(mod, "case_size", lambda c: len(canon(c)))
    n_replay = 0
    per_group_budget = max(5.0, min(60.0, 0.2 * budget.left() / max(1, len(groups))))
    for sig_key in sorted(groups):
        members = groups[sig_key]
        sig = members[0][1]["signature"]
        entry = match_known(sig, known)
        if entry is not None:
            known_hits[entry["id"]] = known_hits.get(entry["id"], 0) + len(members)
            continue
        members.sort(key=lambda cr: size_of(cr[0]))
        case, res = members[0]
        minimised = False
        if budget.left() > 5.0:
            case2, res2 = minimise(mod, case, res, jobs, per_group_budget, out)
            minimised = True
            case, res = case2, res2
        # a minimised case may have drifted onto a known signature
        entry = match_known(res["signature"], known)
        if entry is not None:
            known_hits[entry["id"]] = known_hits.get(entry["id"], 0) + len(members)
            continue
        path = write_replay(prop, mod.ENGINE, verif_seed, case, res, n_replay, minimised)
        n_replay += 1
        unlisted += 1
        reports.append((sig, res.get("detail"), path, len(members)))

    for entry in known:
        if entry.get("status") == "known" and entry["id"] in known_hits:
            out(
                f"KNOWN-FINDING: property={prop} {entry['id']}: {entry['description']} "
                f"[{known_hits[entry['id']]} of {len(done)} runs]"
            )
    for sig, detail, path, count in reports:
        out(f"violation signature: {canon(sig)}")
        out(f"  detail: {detail}")
        out(f"  seen in {count} runs; minimised replay: {path}")
        out(f"VIOLATION property={prop} replay={path}")

    # -------------------------------------------------------- evidence
    digests_nontrivial = set()
    evaluations = 0
    for _, r in done:
        if r.get("subs") is not None:
            evaluations += len(r["subs"])
            digests_nontrivial.update(s["digest"] for s in r["subs"] if s.get("nontrivial"))
        else:
            evaluations += int(r.get("runs", 1))
            if r.get("nontrivial") and r.get("digest"):
                digests_nontrivial.add(r["digest"])
    probes: dict[str, int] = {}
    faults: dict[str, int] = {}
    steps = 0
    for _, r in done:
        steps += int(r.get("steps", 0))
        for k, v in (r.get("probes") or {}).items():
            probes[k] = probes.get(k, 0) + int(v)
        for k, v in (r.get("faults") or {}).items():
            faults[k] = faults.get(k, 0) + int(v)
    expected_probes = list(getattr(mod, "PROBES", []))
    probes_at_zero = [p for p in expected_probes if probes.get(p, 0) == 0]
    samples = []
    for c, r in done[:: max(1, len(done) // 4)][:4]:
        samples.append(
            dict(case=c, verdict=r.get("verdict"), steps=r.get("steps"), first_events=r.get("head"), detail=r.get("detail"))
        )
    wall = time.monotonic() - t0
    coverage = dict(
        evaluations=evaluations,
        cases=len(done),
        distinct_nontrivial=len(digests_nontrivial),
        rule=mod.RULE,
        samples=samples,
        exhaustive=bool(getattr(mod, "EXHAUSTIVE", False)),
        runs_ok=len(oks),
        runs_violating=len(violations),
        runs_discarded=len(discards),
        runs_skipped_for_time=skipped,
        discard_reasons=_count(r.get("detail", "?") for _, r in discards),
        sim_steps=steps,
        simulated_time_s=round(steps * 1e-3, 3),
        runs_per_hour=int(evaluations / max(t_run, 1e-9) * 3600),
        seeds=dict(verif_seed=verif_seed, run_seeds="mix(VERIF_SEED, property, run_index)"),
        faults_fired=faults,
        probes=probes,
        probes_at_zero=probes_at_zero,
        violation_signatures={k: len(v) for k, v in groups.items()},
        known_findings_hit=known_hits,
        determinism_recheck=dict(mismatches=len(nondet)),
        real_vs_stub=getattr(mod, "REAL_VS_STUB", {}),
    )
    evidence = dict(
        property_id=prop,
        tier=tier,
        seed=int(verif_seed),
        level=mod.LEVEL,
        coverage=coverage,
        assumptions=list(getattr(mod, "ASSUMPTIONS", [])),
        wall_s=round(wall, 2),
        violations=unlisted,
    )
    os.makedirs(EVIDENCE_DIR, exist_ok=True)
    with open(os.path.join(EVIDENCE_DIR, f"{prop}.json"), "w") as f:
        json.dump(evidence, f, indent=1, sort_keys=True, default=str)

    out(
        f"[{prop}] cases={len(done)} runs={evaluations} ok={len(oks)} violating={len(violations)} "
        f"discarded={len(discards)} skipped={skipped} distinct_nontrivial={len(digests_nontrivial)} "
        f"steps={steps} wall={wall:.1f}s probes_at_zero={probes_at_zero}"
    )
    if harness_errors:
        for c, r in harness_errors[:3]:
            out(f"HARNESS-ERROR {r.get('error')}\n{r.get('traceback', '')}\n case={canon(c)[:600]}")
        return 2
    if nondet:
        for line in nondet[:5]:
            out(f"HARNESS-ERROR nondeterminism: {line}")
        return 2
    if len(done) == 0:
        out("HARNESS-ERROR no case was evaluated")
        return 2
    return 1 if unlisted else 0


def _count(it) -> dict:
    out: dict[str, int] = {}
    for x in it:
        x = str(x)[:120]
        out[x] = out.get(x, 0) + 1
    return out


def digest_of(*parts) -> str:
    h = hashlib.sha256()
    for p in parts:
        h.update(repr(p).encode())
    return h.hexdigest()
