"""
In-process model of ``mpi4py.MPI`` for the simulated MPI world (engine E1).

``install()`` must run *before* ``import yaw``: the library selects its MPI code
paths at import time (``COMM_WORLD.Get_size() > 1``).  Every rank of a world is
a simulated task of sim.core; ``COMM_WORLD.Get_rank()`` reads the rank from the
running task.

Network model = the loosest behaviour the MPI standard allows (DESIGN.md 2.3):

* standard-mode ``send`` completes either eagerly or synchronously (a recorded
  choice per call);
* messages are non-overtaking only within one (communicator, source, dest)
  channel; an in-flight message needs an *arrival* event (performed by a daemon
  task, hence a scheduling choice) before a receive can match it, so messages
  of different senders become visible in any order -- also against causal
  order;
* a wildcard receive picks (recorded choice) among the matchable heads of all
  channels;
* collectives are checked for consistent order/kind/root across the members and
  synchronise minimally.

With ``causal=True`` messages arrive at once and wildcard receives match in
global send order (what single-node shared-memory transports do in practice);
the evidence reports which violations need non-causal delivery.
"""

from __future__ import annotations

import pickle
import sys
import types
from collections import deque

import numpy as np

from sim.core import Sim, current_sim, current_task

ANY_SOURCE = -2
ANY_TAG = -1
UNDEFINED = -32766
DEFAULT_SIZE = 2  # what COMM_WORLD reports outside any simulated world (import time)


class CollectiveMismatch(Exception):
    pass


class MPIUsageError(Exception):
    pass


class _Message:
    __slots__ = ("payload", "tag", "src", "dst", "seq", "arrived", "matched", "sync", "clock", "src_world")

    def __init__(self, payload, tag, src, dst, seq, sync, clock, src_world):
        self.payload, self.tag, self.src, self.dst = payload, tag, src, dst
        self.seq, self.sync, self.clock, self.src_world = seq, sync, clock, src_world
        self.arrived = False
        self.matched = False


class World:
    def __init__(self, sim: Sim, size: int, *, causal: bool = False, nodes: list[str] | None = None,
                 force_mode: str | None = None) -> None:
        self.sim = sim
        self.size = size
        self.causal = causal
        self.force_mode = force_mode  # None | "eager" | "sync"
        self.nodes = nodes or ["node0"] * size
        self.channels: dict[tuple, deque] = {}
        self.comms: dict[int, "FakeComm"] = {}
        self.coll: dict[tuple, dict] = {}
        self.msg_seq = 0
        self.results: dict[int, object] = {}
        self.rank_tasks: dict[int, object] = {}
        self.finished = False
        self.world_comm = FakeComm(self, 0, list(range(size)))
        self.next_comm_id = 1
        self.stats = dict(sent=0, eager=0, sync=0, wildcard_multi=0, arrivals=0, overtaken=0)
        sim.objects["mpi_world"] = self

    # --------------------------------------------------------------- network
    def unarrived_channels(self) -> list[tuple]:
        out = []
        for key in sorted(self.channels):
            ch = self.channels[key]
            if any(not m.arrived for m in ch):
                out.append(key)
        return out

    def net_loop(self) -> None:
        sim = self.sim
        while True:
            sim.sched_point(("net.wait",), cond=lambda: self.finished or bool(self.unarrived_channels()))
            if self.finished:
                return
            keys = self.unarrived_channels()
            if not keys:
                continue
            key = keys[sim.draw(len(keys))]
            for m in self.channels[key]:
                if not m.arrived:
                    m.arrived = True
                    self.stats["arrivals"] += 1
                    sim.note("net.arrive", key[0], key[1], key[2], m.tag, m.seq)
                    break

    def in_flight(self) -> list[tuple]:
        out = []
        for key in sorted(self.channels):
            for m in self.channels[key]:
                out.append((key, m.tag, m.seq, m.arrived))
        return out


def _world() -> World | None:
    sim = current_sim()
    if sim is None:
        return None
    return sim.objects.get("mpi_world")


def _my_world_rank() -> int:
    t = current_task()
    return getattr(t, "mpi_rank", 0) if t is not None else 0


class FakeComm:
    """A communicator of a simulated world."""

    def __init__(self, world: World, comm_id: int, members: list[int]) -> None:
        self.world = world
        self.comm_id = comm_id
        self.members = list(members)
        self.coll_count: dict[int, int] = {}
        self.freed: set[int] = set()
        world.comms[comm_id] = self

    # ---- identity
    def Get_size(self) -> int:  # noqa: N802
        return len(self.members)

    def Get_rank(self) -> int:  # noqa: N802
        wr = _my_world_rank()
        try:
            return self.members.index(wr)
        except ValueError:
            raise MPIUsageError(f"world rank {wr} is not a member of communicator {self.comm_id}") from None

    def _check_alive(self) -> None:
        if _my_world_rank() in self.freed:
            raise MPIUsageError(f"communicator {self.comm_id} used after Free()")

    # ---- point to point
    def send(self, obj, dest: int, tag: int = 0) -> None:
        self._check_alive()
        w, sim = self.world, self.world.sim
        me = self.Get_rank()
        if not (0 <= dest < len(self.members)):
            raise MPIUsageError(f"send to invalid rank {dest} in communicator of size {len(self.members)}")
        payload = pickle.dumps(obj)
        if w.force_mode == "eager":
            sync = False
        elif w.force_mode == "sync":
            sync = True
        else:
            sync = bool(sim.draw(2))
        w.msg_seq += 1
        msg = _Message(payload, tag, me, dest, w.msg_seq, sync, sim.hb_send(), _my_world_rank())
        if w.causal:
            msg.arrived = True
        w.channels.setdefault((self.comm_id, me, dest), deque()).append(msg)
        w.stats["sent"] += 1
        w.stats["sync" if sync else "eager"] += 1
        if sync:
            sim.sched_point(("mpi.ssend", self.comm_id, me, dest, tag), cond=lambda: msg.matched)
        else:
            sim.sched_point(("mpi.send", self.comm_id, me, dest, tag))

    def ssend(self, obj, dest: int, tag: int = 0) -> None:
        saved = self.world.force_mode
        self.world.force_mode = "sync"
        try:
            self.send(obj, dest, tag)
        finally:
            self.world.force_mode = saved

    def _candidates(self, me: int, source: int, tag: int) -> list[tuple]:
        out = []
        for key in sorted(self.world.channels):
            cid, src, dst = key
            if cid != self.comm_id or dst != me:
                continue
            if source != ANY_SOURCE and src != source:
                continue
            for m in self.world.channels[key]:
                if tag != ANY_TAG and m.tag != tag:
                    continue
                # first message of this channel that matches the tag; matchable
                # only once it has arrived (later ones may not overtake it)
                if m.arrived:
                    out.append((key, m))
                break
        return out

    def recv(self, buf=None, source: int = ANY_SOURCE, tag: int = ANY_TAG, status=None):
        self._check_alive()
        w, sim = self.world, self.world.sim
        me = self.Get_rank()
        sim.sched_point(
            ("mpi.recv", self.comm_id, me, source, tag),
            cond=lambda: bool(self._candidates(me, source, tag)),
        )
        cands = self._candidates(me, source, tag)
        if not cands:
            raise MPIUsageError("receive scheduled without a matchable message")
        if len(cands) > 1:
            w.stats["wildcard_multi"] += 1
            sim.probe("wildcard_recv_multiple_senders")
            if w.causal:
                idx = min(range(len(cands)), key=lambda i: cands[i][1].seq)
            else:
                idx = sim.draw(len(cands))
                if cands[idx][1].seq != min(c[1].seq for c in cands):
                    w.stats["overtaken"] += 1
                    sim.probe("wildcard_matched_later_message_first")
        else:
            idx = 0
        key, msg = cands[idx]
        w.channels[key].remove(msg)
        if not w.channels[key]:
            del w.channels[key]
        msg.matched = True
        sim.hb_recv(msg.clock)
        sim.note("mpi.match", self.comm_id, key[1], me, msg.tag, msg.seq)
        return pickle.loads(msg.payload)

    # ---- collectives
    def _enter(self, kind: str, root) -> tuple[dict, int]:
        self._check_alive()
        me = self.Get_rank()
        n = self.coll_count.get(me, 0)
        self.coll_count[me] = n + 1
        slot = self.world.coll.setdefault(
            (self.comm_id, n), dict(kind=kind, root=root, arrived={}, value=None, has_value=False, left=set(), clocks=[])
        )
        if slot["kind"] != kind or slot["root"] != root:
            self.world.sim.note("mpi.collective_mismatch", self.comm_id, n, slot["kind"], kind)
            self.world.sim.objects.setdefault("collective_mismatch", []).append(
                (self.comm_id, n, slot["kind"], slot["root"], kind, root, me)
            )
            raise CollectiveMismatch(
                f"collective #{n} on communicator {self.comm_id}: rank {me} calls {kind}(root={root}) "
                f"but another rank called {slot['kind']}(root={slot['root']})"
            )
        return slot, me

    def _all_here(self, slot) -> bool:
        return len(slot["arrived"]) == len(self.members)

    def Barrier(self) -> None:  # noqa: N802
        slot, me = self._enter("Barrier", None)
        sim = self.world.sim
        slot["arrived"][me] = True
        slot["clocks"].append(sim.hb_send())
        sim.sched_point(("mpi.barrier", self.comm_id, me), cond=lambda: self._all_here(slot))
        for c in slot["clocks"]:
            sim.hb_recv(c)

    barrier = Barrier

    def bcast(self, obj=None, root: int = 0):
        slot, me = self._enter("bcast", root)
        sim = self.world.sim
        slot["arrived"][me] = True
        if me == root:
            slot["value"] = pickle.dumps(obj)
            slot["has_value"] = True
            slot["clocks"].append(sim.hb_send())
            sim.sched_point(("mpi.bcast.root", self.comm_id, me))
            return obj
        sim.sched_point(("mpi.bcast", self.comm_id, me), cond=lambda: slot["has_value"])
        for c in slot["clocks"]:
            sim.hb_recv(c)
        return pickle.loads(slot["value"])

    def Bcast(self, buf, root: int = 0) -> None:  # noqa: N802
        slot, me = self._enter("Bcast", root)
        sim = self.world.sim
        slot["arrived"][me] = True
        arr = np.asarray(buf)
        if me == root:
            slot["value"] = (arr.shape, arr.dtype.str, arr.tobytes())
            slot["has_value"] = True
            slot["clocks"].append(sim.hb_send())
            sim.sched_point(("mpi.Bcast.root", self.comm_id, me))
            return
        sim.sched_point(("mpi.Bcast", self.comm_id, me), cond=lambda: slot["has_value"])
        for c in slot["clocks"]:
            sim.hb_recv(c)
        shape, dt, raw = slot["value"]
        if arr.nbytes != len(raw):
            raise MPIUsageError(f"Bcast buffer of {arr.nbytes} bytes on rank {me}, root sends {len(raw)}")
        src = np.frombuffer(raw, dtype=np.dtype(dt)).reshape(shape)
        arr.reshape(-1).view(np.uint8)[:] = np.ascontiguousarray(src).reshape(-1).view(np.uint8)

    def gather(self, obj, root: int = 0):
        slot, me = self._enter("gather", root)
        sim = self.world.sim
        slot["arrived"][me] = pickle.dumps(obj)
        slot["clocks"].append(sim.hb_send())
        if me != root:
            sim.sched_point(("mpi.gather", self.comm_id, me))
            return None
        sim.sched_point(("mpi.gather.root", self.comm_id, me), cond=lambda: self._all_here(slot))
        for c in slot["clocks"]:
            sim.hb_recv(c)
        return [pickle.loads(slot["arrived"][r]) for r in range(len(self.members))]

    def allgather(self, obj):
        slot, me = self._enter("allgather", None)
        sim = self.world.sim
        slot["arrived"][me] = pickle.dumps(obj)
        slot["clocks"].append(sim.hb_send())
        sim.sched_point(("mpi.allgather", self.comm_id, me), cond=lambda: self._all_here(slot))
        for c in slot["clocks"]:
            sim.hb_recv(c)
        return [pickle.loads(slot["arrived"][r]) for r in range(len(self.members))]

    def Split(self, color: int = 0, key: int = 0):  # noqa: N802
        slot, me = self._enter("Split", None)
        sim = self.world.sim
        slot["arrived"][me] = (color, key, self.members[me])
        slot["clocks"].append(sim.hb_send())
        sim.sched_point(("mpi.split", self.comm_id, me), cond=lambda: self._all_here(slot))
        for c in slot["clocks"]:
            sim.hb_recv(c)
        if "comms" not in slot:
            groups: dict[int, list] = {}
            for r in range(len(self.members)):
                col, k, wr = slot["arrived"][r]
                if col != UNDEFINED:
                    groups.setdefault(col, []).append((k, r, wr))
            slot["comms"] = {}
            for col in sorted(groups):
                members = [wr for _, _, wr in sorted(groups[col])]
                cid = self.world.next_comm_id
                self.world.next_comm_id += 1
                slot["comms"][col] = FakeComm(self.world, cid, members)
        if color == UNDEFINED:
            return COMM_NULL
        return slot["comms"][color]

    def Free(self) -> None:  # noqa: N802
        self.freed.add(_my_world_rank())

    def Dup(self):  # noqa: N802
        raise NotImplementedError("fake MPI: Dup")

    def __reduce__(self):
        if self.comm_id == 0:
            return (_get_comm_world, ())
        raise pickle.PicklingError("sub-communicators cannot be pickled")


class _CommNull:
    def __bool__(self) -> bool:
        return False

    def __getattr__(self, name):
        raise MPIUsageError(f"operation {name} on COMM_NULL")

    def __reduce__(self):
        return (_get_comm_null, ())


COMM_NULL = _CommNull()


def _get_comm_null():
    return COMM_NULL


class _CommWorldProxy:
    """The ``MPI.COMM_WORLD`` singleton: delegates to the world of the running
    simulation; outside a simulation it is a world of DEFAULT_SIZE ranks seen
    from rank 0 whose collectives are no-ops (import time, sequential reference
    runs use ``standalone_size``)."""

    standalone_size = DEFAULT_SIZE

    def _comm(self) -> FakeComm | None:
        w = _world()
        return w.world_comm if w is not None else None

    def Get_size(self) -> int:  # noqa: N802
        c = self._comm()
        return c.Get_size() if c is not None else self.standalone_size

    def Get_rank(self) -> int:  # noqa: N802
        c = self._comm()
        return c.Get_rank() if c is not None else 0

    def __getattr__(self, name):
        c = self._comm()
        if c is None:
            if name in ("Barrier", "barrier"):
                return lambda *a, **k: None
            if name in ("bcast",):
                return lambda obj=None, root=0: obj
            if name == "Bcast":
                return lambda buf, root=0: None
            raise MPIUsageError(f"COMM_WORLD.{name} outside a simulated world")
        return getattr(c, name)

    def __reduce__(self):
        return (_get_comm_world, ())


COMM_WORLD = _CommWorldProxy()


def _get_comm_world():
    return COMM_WORLD


def Get_processor_name() -> str:  # noqa: N802
    w = _world()
    if w is None:
        return "node0"
    return w.nodes[_my_world_rank()]


def install() -> None:
    """Put the fake ``mpi4py`` package into ``sys.modules``."""
    if "yaw" in sys.modules and "mpi4py" not in sys.modules:
        raise RuntimeError("fakempi.install() must run before 'import yaw'")
    pkg = types.ModuleType("mpi4py")
    mpi = types.ModuleType("mpi4py.MPI")
    mpi.COMM_WORLD = COMM_WORLD
    mpi.COMM_NULL = COMM_NULL
    mpi.ANY_SOURCE = ANY_SOURCE
    mpi.ANY_TAG = ANY_TAG
    mpi.UNDEFINED = UNDEFINED
    mpi.Get_processor_name = Get_processor_name
    mpi.Comm = FakeComm
    pkg.MPI = mpi
    pkg.__path__ = []
    sys.modules["mpi4py"] = pkg
    sys.modules["mpi4py.MPI"] = mpi


class single_rank:
    """Context: the process is a world of one rank (``use_mpi()`` is False), used
    for the sequential reference execution inside the MPI interpreter."""

    def __enter__(self):
        import yaw.utils.parallel as ypar

        self._saved = (_CommWorldProxy.standalone_size, ypar._num_processes)
        _CommWorldProxy.standalone_size = 1
        ypar._num_processes = lambda: 1
        return self

    def __exit__(self, *exc):
        import yaw.utils.parallel as ypar

        _CommWorldProxy.standalone_size, ypar._num_processes = self._saved


def run_world(sim: Sim, size: int, program, *, causal: bool = False, nodes=None, force_mode=None) -> tuple[str, World]:
    """Run ``program(rank)`` on ``size`` simulated ranks (SPMD).  Rank 0 is the
    simulation's main task and starts the others, like mpirun."""
    import yaw.utils.logging as ylog
    import yaw.utils.parallel as ypar

    world = World(sim, size, causal=causal, nodes=nodes, force_mode=force_mode)

    def rank_main(rank: int):
        t = current_task()
        t.mpi_rank = rank
        world.rank_tasks[rank] = t
        if rank == 0:
            sim.spawn("net", world.net_loop, kind="daemon")
            for r in range(1, size):
                sim.spawn(f"rank{r}", rank_main, r, kind="rank")
        try:
            world.results[rank] = program(rank)
        finally:
            if all(
                (tk.state == "done" or tk is t) for tk in world.rank_tasks.values()
            ) and len(world.rank_tasks) == size:
                world.finished = True
        return world.results[rank]

    saved = (ypar._num_processes, ylog.default_timer)
    ypar._num_processes = lambda: size
    ylog.default_timer = sim.clock
    try:
        verdict = sim.run(rank_main, 0, name="rank0")
    finally:
        ypar._num_processes, ylog.default_timer = saved
        world.finished = True
    return verdict, world
