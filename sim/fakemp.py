"""
In-process model of the parts of ``multiprocessing`` that yaw uses
(``Pool.imap_unordered``, ``Pool.map``, ``Manager().Queue()``, ``Process``,
``cpu_count``), with every blocking operation a scheduling point of sim.core.

Semantics follow CPython 3.12 ``Lib/multiprocessing/pool.py`` with the fork
start method; see DESIGN.md section 2.2 for the table.
"""

from __future__ import annotations

import copy
import pickle
from collections import deque

from sim.core import Sim, current_sim, current_task


class MaybeEncodingError(Exception):
    """Stand-in for multiprocessing.pool.MaybeEncodingError."""


def multiprocessing_TimeoutError():
    import multiprocessing

    return multiprocessing.TimeoutError()


def _roundtrip_exc(exc: BaseException) -> BaseException:
    try:
        return pickle.loads(pickle.dumps(exc))
    except Exception as err:  # noqa: BLE001
        return MaybeEncodingError(f"{exc!r} / {err!r}")


class _Job:
    def __init__(self, pool: "FakePool", kind: str, nchunks: int, chunksize: int):
        self.pool = pool
        self.kind = kind  # "imap_unordered" | "map"
        self.jid = pool.sim.next_id("job")
        self.nchunks = nchunks
        self.chunksize = chunksize
        self.number_left = nchunks
        self.ready = deque()  # imap_unordered: results in completion order
        self.collected = 0
        self.success = True
        self.value = [None] * 0
        self.order: list[int] = []  # completion order of chunk indices
        self.clocks: list = []

    def deliver(self, idx: int, ok: bool, value, clock) -> None:
        self.order.append(idx)
        if self.kind == "imap_unordered":
            self.ready.append((idx, ok, value, clock))
            self.number_left -= 1
            return
        # MapResult._set
        self.number_left -= 1
        self.clocks.append(clock)
        if ok and self.success:
            self.value[idx * self.chunksize : (idx + 1) * self.chunksize] = value
        elif not ok and self.success:
            self.success = False  # only the first failure (by completion) is kept
            self.value = value


class FakePool:
    def __init__(self, sim: Sim, processes: int | None) -> None:
        self.sim = sim
        self.pid = sim.next_id("pool")
        n = int(processes) if processes is not None else sim.cores
        if n < 1:
            raise ValueError("Number of processes must be at least 1")
        self.n = n
        self.state = "run"  # run | closed | terminated
        self.taskq: deque = deque()
        self.workers = [
            sim.spawn(f"pool{self.pid}.w{i}", self._worker_loop, i, kind="poolworker")
            for i in range(n)
        ]
        sim.probe("pool_created")

    # -------------------------------------------------------------- context
    def __enter__(self) -> "FakePool":
        if self.state != "run":
            raise ValueError("Pool not running")
        return self

    def __exit__(self, *exc) -> None:
        self.terminate()

    def close(self) -> None:
        if self.state == "run":
            self.state = "closed"

    def join(self) -> None:
        if self.state == "run":
            raise ValueError("Pool is still running")
        self.sim.sched_point(
            ("pool.join", self.pid),
            cond=lambda: all(w.state in ("done", "killed") for w in self.workers),
        )

    def terminate(self) -> None:
        if self.state == "terminated":
            return
        self.state = "terminated"
        dropped = len(self.taskq)
        self.taskq.clear()
        killed = 0
        for w in self.workers:
            if w.busy_user and w is not current_task():
                # SIGTERM reaches a worker in the middle of a task
                self.sim.kill(w)
                killed += 1
        self.sim.note("pool.terminate", self.pid, dropped, killed)
        if killed:
            self.sim.probe("pool_worker_killed_in_task", killed)

    # --------------------------------------------------------------- worker
    def _worker_loop(self, i: int) -> None:
        sim = self.sim
        me = current_task()
        while True:
            sim.sched_point(
                ("pool.take", self.pid, i),
                cond=lambda: bool(self.taskq) or self.state != "run",
            )
            if self.state == "terminated":
                return
            if not self.taskq:
                if self.state == "closed":
                    return
                continue
            job, idx, payload, clock = self.taskq.popleft()
            sim.hb_recv(clock)
            me.busy_user = True
            nth = sim.next_id("pooltask")
            fault = sim.faults.get("pool_task_memerror")
            try:
                if fault is not None and fault == nth:
                    sim.probe("fault_pool_memerror_fired")
                    sim.note("fault", "MemoryError", nth)
                    raise MemoryError("simulated allocation failure in pool worker")
                func, chunk = pickle.loads(payload)
                out = []
                for arg in chunk:  # mapstar: first exception aborts the chunk
                    out.append(func(arg))
                ok, blob = True, pickle.dumps(out)
            except Exception as err:  # noqa: BLE001 - worker reports it to the parent
                ok, blob = False, pickle.dumps(_roundtrip_exc(err))
            sim.sched_point(("pool.done", self.pid, i, job.jid, idx))
            # (a terminate() while we were parked here killed us: not reached)
            me.busy_user = False
            value = pickle.loads(blob)
            job.deliver(idx, ok, value, sim.hb_send())

    # --------------------------------------------------------------- submit
    def _check_running(self) -> None:
        if self.state != "run":
            raise ValueError("Pool not running")

    def imap_unordered(self, func, iterable, chunksize: int = 1):
        self._check_running()
        if chunksize < 1:
            raise ValueError(f"Chunksize must be 1+, not {chunksize:n}")
        items = list(iterable)
        if chunksize != 1:
            # Pool.imap_unordered with batches: one task per batch (mapstar), the results of a
            # batch travel in one pickle and are handed out one after the other
            chunks = [tuple(items[i : i + chunksize]) for i in range(0, len(items), chunksize)]
            job = _Job(self, "imap_unordered", len(chunks), chunksize)
            clock = self.sim.hb_send()
            for idx, chunk in enumerate(chunks):
                try:
                    payload = pickle.dumps((func, chunk))
                except Exception as err:  # noqa: BLE001 - real pool: task fails
                    job.deliver(idx, False, MaybeEncodingError(repr(err)), None)
                    continue
                self.taskq.append((job, idx, payload, clock))
            self.sim.note("imap_unordered", self.pid, job.jid, len(chunks), chunksize)
            self.sim.probe("imap_batched")
            batches = _IMapUnorderedIterator(self, job, whole=True)
            return (item for batch in batches for item in batch)
        job = _Job(self, "imap_unordered", len(items), 1)
        clock = self.sim.hb_send()
        for idx, arg in enumerate(items):
            try:
                payload = pickle.dumps((func, (arg,)))
            except Exception as err:  # noqa: BLE001 - real pool: task fails
                job.deliver(idx, False, MaybeEncodingError(repr(err)), None)
                continue
            self.taskq.append((job, idx, payload, clock))
        self.sim.note("imap_unordered", self.pid, job.jid, len(items))
        return _IMapUnorderedIterator(self, job)

    def map_async(self, func, iterable, chunksize: int | None = None, callback=None, error_callback=None):
        self._check_running()
        items = list(iterable)
        if chunksize is None:
            chunksize, extra = divmod(len(items), self.n * 4)
            if extra:
                chunksize += 1
        if len(items) == 0:
            chunksize = 1
        chunks = [items[i : i + chunksize] for i in range(0, len(items), chunksize)]
        job = _Job(self, "map", len(chunks), chunksize)
        job.value = [None] * len(items)
        clock = self.sim.hb_send()
        for idx, chunk in enumerate(chunks):
            self.taskq.append((job, idx, pickle.dumps((func, tuple(chunk))), clock))
        self.sim.note("map_async", self.pid, job.jid, len(chunks))
        return _MapAsyncResult(self, job)

    def apply_async(self, func, args=(), kwds=None, callback=None, error_callback=None):
        self._check_running()
        import functools

        job = _Job(self, "map", 1, 1)
        job.value = [None]
        call = functools.partial(_apply_star, func, tuple(args), dict(kwds or {}))
        self.taskq.append((job, 0, pickle.dumps((call, (None,))), self.sim.hb_send()))
        self.sim.note("apply_async", self.pid, job.jid)
        return _MapAsyncResult(self, job, single=True)

    def apply(self, func, args=(), kwds=None):
        return self.apply_async(func, args, kwds).get()

    def imap(self, func, iterable, chunksize: int = 1):
        res = self.map_async(func, iterable, chunksize)
        return iter(res.get())

    def map(self, func, iterable, chunksize: int | None = None):
        self._check_running()
        items = list(iterable)
        if chunksize is None:
            chunksize, extra = divmod(len(items), self.n * 4)
            if extra:
                chunksize += 1
        if len(items) == 0:
            chunksize = 0
            return []
        chunks = [items[i : i + chunksize] for i in range(0, len(items), chunksize)]
        job = _Job(self, "map", len(chunks), chunksize)
        job.value = [None] * len(items)
        clock = self.sim.hb_send()
        for idx, chunk in enumerate(chunks):
            payload = pickle.dumps((func, tuple(chunk)))
            self.taskq.append((job, idx, payload, clock))
        self.sim.note("map", self.pid, job.jid, len(chunks))
        self.sim.sched_point(
            ("map.wait", self.pid, job.jid), cond=lambda: job.number_left == 0
        )
        for c in job.clocks:
            self.sim.hb_recv(c)
        if job.order != sorted(job.order):
            self.sim.probe("map_completion_out_of_order")
        if job.success:
            return job.value
        raise job.value


class _MapAsyncResult:
    """multiprocessing.pool.MapResult / ApplyResult: wait() does not re-raise,
    get() does."""

    def __init__(self, pool: "FakePool", job: _Job, single: bool = False) -> None:
        self.pool, self.job, self.single = pool, job, single

    def ready(self) -> bool:
        return self.job.number_left == 0

    def successful(self) -> bool:
        if not self.ready():
            raise ValueError("result is not ready")
        return self.job.success

    def wait(self, timeout=None) -> None:
        sim = self.pool.sim
        if sim.timed_wait(("map_async.wait", self.pool.pid, self.job.jid), lambda: self.job.number_left == 0, timeout):
            for c in self.job.clocks:
                sim.hb_recv(c)

    def get(self, timeout=None):
        self.wait(timeout)
        if not self.ready():
            raise multiprocessing_TimeoutError()
        if self.job.success:
            return self.job.value[0] if self.single else self.job.value
        raise self.job.value


class _IMapUnorderedIterator:
    def __init__(self, pool: FakePool, job: _Job, whole: bool = False) -> None:
        self.pool, self.job, self.whole = pool, job, whole

    def __iter__(self):
        return self

    def __next__(self):
        job, sim = self.job, self.pool.sim
        if job.collected >= job.nchunks:
            if job.order != sorted(job.order):
                sim.probe("imap_completion_out_of_order")
            raise StopIteration
        sim.sched_point(
            ("imap.next", self.pool.pid, job.jid), cond=lambda: bool(job.ready)
        )
        idx, ok, value, clock = job.ready.popleft()
        sim.hb_recv(clock)
        job.collected += 1
        if ok:
            return value if self.whole else value[0]
        raise value

    next = __next__


def _apply_star(func, args, kwds, _ignored):
    return func(*args, **kwds)


class FakeQueue:
    """``Manager().Queue()``: unbounded, linearizable FIFO living in the manager
    process; the proxy pickles by reference."""

    def __init__(self, sim: Sim, manager: "FakeManager", maxsize: int = 0) -> None:
        self.sim = sim
        self.manager = manager
        self.maxsize = int(maxsize) if maxsize and maxsize > 0 else 0
        self.qid = sim.next_id("queue")
        self.items: deque = deque()
        sim.objects[f"queue:{self.qid}"] = self
        self.nput = 0
        self.nget = 0

    def __reduce__(self):
        return (_lookup, (f"queue:{self.qid}",))

    def __deepcopy__(self, memo):
        return self

    def _check(self) -> None:
        if self.manager.closed:
            raise EOFError("manager process has shut down")

    def put(self, obj, block: bool = True, timeout=None) -> None:
        import queue as _queue

        payload = pickle.dumps(obj)
        if self.maxsize:
            # bounded queue: put blocks while the queue is full
            self.sim.probe("bounded_queue_put")
            ok = self.sim.timed_wait(
                ("q.put", self.qid),
                lambda: len(self.items) < self.maxsize or self.manager.closed,
                timeout if block else 0,
            )
            if not ok:
                raise _queue.Full()
        else:
            self.sim.sched_point(("q.put", self.qid))
        self._check()
        self.items.append((payload, self.sim.hb_send()))
        self.nput += 1

    def put_nowait(self, obj) -> None:
        self.put(obj, block=False)

    def get(self, block: bool = True, timeout=None):
        import queue as _queue

        ok = self.sim.timed_wait(
            ("q.get", self.qid),
            lambda: bool(self.items) or self.manager.closed,
            timeout if block else 0,
        )
        if not ok:
            raise _queue.Empty()
        if not self.items:
            self._check()
        payload, clock = self.items.popleft()
        self.sim.hb_recv(clock)
        self.nget += 1
        return pickle.loads(payload)

    def get_nowait(self):
        return self.get(block=False)

    def qsize(self) -> int:
        return len(self.items)

    def empty(self) -> bool:
        return not self.items

    def full(self) -> bool:
        return bool(self.maxsize) and len(self.items) >= self.maxsize


def _lookup(key: str):
    sim = current_sim()
    if sim is None:
        raise RuntimeError("fake multiprocessing proxy used outside a simulation")
    return sim.objects[key]


class FakeManager:
    def __init__(self, sim: Sim) -> None:
        self.sim = sim
        self.closed = False
        self.queues: list[FakeQueue] = []
        sim.objects.setdefault("managers", []).append(self)

    def __enter__(self) -> "FakeManager":
        return self

    def __exit__(self, *exc) -> None:
        self.shutdown()

    def shutdown(self) -> None:
        self.closed = True
        self.sim.note("manager.shutdown")

    def Queue(self, maxsize: int = 0) -> FakeQueue:  # noqa: N802
        q = FakeQueue(self.sim, self, maxsize)
        self.queues.append(q)
        return q


class FakeProcess:
    def __init__(
        self, group=None, target=None, name=None, args=(), kwargs=None, *, daemon=None
    ) -> None:
        self.sim = current_sim()
        self._target = target
        self._args = tuple(args)
        self._kwargs = dict(kwargs or {})
        self.pid_ = self.sim.next_id("process")
        self.name = name or f"Process-{self.pid_}"
        self.task = None
        self.daemon = daemon

    def __deepcopy__(self, memo):
        return self

    def __reduce__(self):
        raise TypeError("Process objects are not picklable")

    def start(self) -> None:
        if self.task is not None:
            raise AssertionError("cannot start a process twice")
        # fork: the child works on a copy of the parent's memory
        target = copy.deepcopy(self._target)
        args = copy.deepcopy(self._args)
        kwargs = copy.deepcopy(self._kwargs)
        self.sim.probe("process_started")
        self.task = self.sim.spawn(
            f"proc{self.pid_}", self._run, target, args, kwargs, kind="process"
        )

    def _run(self, target, args, kwargs) -> None:
        try:
            if target is not None:
                target(*args, **kwargs)
        except Exception as err:  # noqa: BLE001
            # the child prints a traceback and exits with code 1; the parent is
            # not told
            self.sim.note("process.died", self.name, type(err).__name__, str(err)[:200])
            self.sim.objects.setdefault("process_errors", []).append(err)
            raise

    def join(self, timeout=None) -> None:
        if self.task is None:
            raise AssertionError("can only join a started process")
        if self.sim.timed_wait(("proc.join", self.pid_), lambda: self.task.state in ("done", "killed"), timeout):
            self.sim.hb_recv(self.task.vc)

    def is_alive(self) -> bool:
        return self.task is not None and self.task.state not in ("done", "killed")

    @property
    def exitcode(self):
        if self.task is None:
            return None
        if self.task.state == "killed":
            return -9  # died from a signal
        if not self.task.done:
            return None
        return 1 if self.task.exc is not None else 0

    def terminate(self) -> None:
        if self.task is not None:
            self.sim.kill(self.task)

    kill = terminate


class FakeMultiprocessing:
    """Namespace assigned to ``yaw.utils.parallel.multiprocessing`` and
    ``yaw.catalog.catalog.multiprocessing`` while a simulation runs."""

    Process = FakeProcess

    def __init__(self, sim: Sim) -> None:
        self.sim = sim

    def Pool(self, processes=None, *a, **k) -> FakePool:  # noqa: N802
        return FakePool(self.sim, processes)

    def Manager(self) -> FakeManager:  # noqa: N802
        return FakeManager(self.sim)

    def cpu_count(self) -> int:
        return self.sim.cores

    def parent_process(self):
        """``multiprocessing.parent_process()``: None in the main process, otherwise a handle whose
        ``is_alive()`` tells whether the simulated process that started this one still runs."""
        t = current_task()
        parent = getattr(t, "parent_task", None) if t is not None else None
        if t is None or parent is None or t is self.sim.main:
            return None

        class _Parent:
            name = parent.name
            pid = parent.tid

            @staticmethod
            def is_alive() -> bool:
                return parent.state not in ("done", "killed")

        return _Parent()

    def current_process(self):
        t = current_task()

        class _Me:
            name = "MainProcess" if (t is None or t is self.sim.main) else t.name
            daemon = False

        return _Me()

    def get_start_method(self) -> str:
        return "fork"


class patched:
    """Context manager installing the fakes into the yaw modules."""

    def __init__(self, sim: Sim, *, progress_sink=None) -> None:
        self.sim = sim
        self.saved: list[tuple] = []
        self.sink = progress_sink

    def _set(self, obj, name, value) -> None:
        self.saved.append((obj, name, getattr(obj, name)))
        setattr(obj, name, value)

    def __enter__(self):
        import yaw.catalog.catalog as ycat
        import yaw.utils.logging as ylog
        import yaw.utils.parallel as ypar

        fake = FakeMultiprocessing(self.sim)
        self._set(ypar, "multiprocessing", fake)
        self._set(ycat, "multiprocessing", fake)
        self._set(ypar, "_num_processes", lambda: self.sim.cores)
        self._set(ylog, "default_timer", self.sim.clock)
        from sim import fakefutures

        fakefutures.install(self, self.sim)  # concurrent.futures executors, should the library use them
        return fake

    def __exit__(self, *exc) -> None:
        for obj, name, value in reversed(self.saved):
            setattr(obj, name, value)
