"""Deterministic simulation harness for yet_another_wizz (see /verif/DESIGN.md)."""
