"""
E1 core: seeded baton-passing scheduler.

Every simulated OS process is a real Python thread parked on a private
semaphore.  A single controller (the thread that calls ``Sim.run``) releases
exactly one task at a time; which one is either drawn from a PRNG seeded by the
run seed or taken from a recorded choice list (replay).  A run is therefore a
pure function of (code, workload, seed | choices).

Scheduling points are the operations of the fake transports (sim.fakemp,
sim.fakempi) and -- when ``fs_root`` is set -- every audited file-system event
below that root (``open`` / ``os.mkdir`` / ``os.remove`` / ``os.rename`` /
``os.rmdir`` / ``os.scandir`` / ``shutil.rmtree``).  A write-mode ``open`` is two
scheduling points: one before anything happens and one after the file has been
created/truncated, so that "file exists but is still empty" is a state other
simulated processes can observe.

No PRNG draw and no real clock read happens in any logging path.
"""

from __future__ import annotations

import hashlib
import os
import sys
import threading
import traceback

M64 = (1 << 64) - 1


class Prng:
    """splitmix64; implemented here so replay does not depend on CPython's
    ``random`` internals."""

    __slots__ = ("s",)

    def __init__(self, seed: int) -> None:
        self.s = seed & M64

    def next(self) -> int:
        self.s = (self.s + 0x9E3779B97F4A7C15) & M64
        z = self.s
        z = ((z ^ (z >> 30)) * 0xBF58476D1CE4E5B9) & M64
        z = ((z ^ (z >> 27)) * 0x94D049BB133111EB) & M64
        return z ^ (z >> 31)

    def below(self, n: int) -> int:
        return self.next() % n

    def chance(self, num: int, den: int) -> bool:
        return self.next() % den < num

    def choice(self, seq):
        return seq[self.below(len(seq))]

    def randint(self, lo: int, hi: int) -> int:
        """inclusive"""
        return lo + self.below(hi - lo + 1)

    def uniform(self) -> float:
        return (self.next() >> 11) / float(1 << 53)

    def shuffle(self, lst: list) -> None:
        for i in range(len(lst) - 1, 0, -1):
            j = self.below(i + 1)
            lst[i], lst[j] = lst[j], lst[i]

    def fork(self, label) -> "Prng":
        return Prng(mix(self.next(), label))


def mix(*parts) -> int:
    """Order-sensitive 64-bit hash of ints / strings (stable across processes,
    independent of PYTHONHASHSEED)."""
    h = hashlib.blake2b(digest_size=8)
    for p in parts:
        h.update(repr(p).encode())
        h.update(b"\x00")
    return int.from_bytes(h.digest(), "big")


class SimAbort(BaseException):
    """Raised inside parked task threads when a finished run reclaims them."""


class SimInternalError(Exception):
    """The harness itself is inconsistent (never a property verdict)."""


_tls = threading.local()
_CURRENT: "Sim | None" = None
_AUDIT_INSTALLED = False


def current_sim() -> "Sim | None":
    return _CURRENT


def current_task() -> "Task | None":
    return getattr(_tls, "task", None)


class Task:
    def __init__(self, sim: "Sim", name: str, fn, args, kwargs, kind: str) -> None:
        self.sim = sim
        self.name = name
        self.kind = kind
        self.tid = len(sim.tasks)
        self.fn, self.args, self.kwargs = fn, args, kwargs
        self.sem = threading.Semaphore(0)
        self.state = "new"  # new | blocked | running | done | killed
        self.cond = None
        self.op = ("start",)
        self.result = None
        self.exc: BaseException | None = None
        self.tb = ""
        self.aborted = False
        self.vc: dict[int, int] = {self.tid: 0}
        self.busy_user = False  # set by the fake pool while inside a user task
        self.daemon = kind == "daemon"  # excluded from completion / deadlock detection
        self.thread = threading.Thread(
            target=self._boot, daemon=True, name=f"sim-{name}"
        )

    @property
    def done(self) -> bool:
        return self.state == "done"

    def _boot(self) -> None:
        self.sem.acquire()
        _tls.task = self
        try:
            if self.sim.aborting:
                self.aborted = True
                return
            self.state = "running"
            self.result = self.fn(*self.args, **self.kwargs)
        except SimAbort:
            self.aborted = True
        except BaseException as err:  # noqa: BLE001 - a simulated process died
            self.exc = err
            self.tb = traceback.format_exc()
        finally:
            _tls.task = None
            self.state = "done"
            self.vc[self.tid] = self.vc.get(self.tid, 0) + 1
            self.sim.ctrl.release()


class Verdict:
    COMPLETE = "complete"
    DEADLOCK = "deadlock"
    STEP_CAP = "step_cap"


class Sim:
    def __init__(
        self,
        seed: int,
        *,
        choices: list[int] | None = None,
        step_cap: int = 200_000,
        fs_root: str | None = None,
        cores: int = 4,
        default_choice: int | None = None,
        policy: str = "prng",
    ) -> None:
        self.seed = seed
        self.prng = Prng(mix("sched", seed))
        self.replay = list(choices) if choices is not None else None
        self.replay_pos = 0
        self.default_choice = default_choice
        self.policy = policy  # prng | first | last | rr  (ignored under replay)
        self.choices: list[int] = []
        self.step_cap = step_cap
        self.cores = cores
        self.tasks: list[Task] = []
        self.log: list[tuple] = []
        self.steps = 0
        self.ctrl = threading.Semaphore(0)
        self.current: Task | None = None
        self.aborting = False
        self.fs_root = os.path.realpath(fs_root) if fs_root else None
        self.fs_accesses: list[tuple] = []
        self.max_runnable = 0
        self.multi_choice_steps = 0
        self.objects: dict[str, object] = {}  # registries for by-reference pickles
        self.counters: dict[str, int] = {}
        self.probes: dict[str, int] = {}
        self.faults: dict = {}
        self.notes: list[tuple] = []
        self.blocked_report: list[dict] = []
        self.verdict: str | None = None
        self.scrub: list[str] = [self.fs_root] if self.fs_root else []

    # ------------------------------------------------------------------ tasks
    def next_id(self, kind: str) -> int:
        n = self.counters.get(kind, 0)
        self.counters[kind] = n + 1
        return n

    def probe(self, name: str, inc: int = 1) -> None:
        self.probes[name] = self.probes.get(name, 0) + inc

    def note(self, *event) -> None:
        """Append an event to the log without a scheduling point.  Scratch
        directory names (random) are scrubbed from strings."""
        clean = []
        for x in event:
            if isinstance(x, str):
                for pat in self.scrub:
                    x = x.replace(pat, "<scratch>")
            clean.append(x)
        self.log.append(("note",) + tuple(clean))

    def spawn(self, name: str, fn, *args, kind: str = "proc", **kwargs) -> Task:
        task = Task(self, name, fn, args, kwargs, kind)
        parent = current_task()
        task.parent_task = parent
        if parent is not None:
            parent.vc[parent.tid] = parent.vc.get(parent.tid, 0) + 1
            task.vc.update(parent.vc)
            task.vc[task.tid] = 0
        self.tasks.append(task)
        ps = sys.modules.get("sim.procstate")
        if ps is not None:
            ps.on_spawn(parent, task)  # fork: the child inherits the parent's process-local memos
        task.state = "blocked"
        task.thread.start()
        return task

    # ---------------------------------------------------------- vector clocks
    def hb_send(self) -> dict[int, int]:
        t = current_task()
        if t is None:
            return {}
        t.vc[t.tid] = t.vc.get(t.tid, 0) + 1
        return dict(t.vc)

    def hb_recv(self, clock: dict[int, int] | None) -> None:
        t = current_task()
        if t is None or not clock:
            return
        for k, v in clock.items():
            if t.vc.get(k, -1) < v:
                t.vc[k] = v
        t.vc[t.tid] = t.vc.get(t.tid, 0) + 1

    # ------------------------------------------------------- scheduling point
    def sched_point(self, op: tuple, cond=None) -> None:
        t = current_task()
        if t is None or t.sim is not self:
            if cond is not None and not cond():
                raise SimInternalError(f"blocking op {op} outside a simulated task")
            return
        if self.aborting:
            raise SimAbort()
        t.op = op
        t.cond = cond
        t.state = "blocked"
        self.ctrl.release()
        t.sem.acquire()
        if self.aborting:
            raise SimAbort()
        t.state = "running"

    def timed_wait(self, op: tuple, cond, timeout) -> bool:
        """Blocking operation with an optional timeout.  Returns True once ``cond()`` holds, False if
        the wait timed out.  ``timeout=None`` waits for the condition.  A timeout of 0 polls.  Any
        other timeout can only fire through the fault ``timeouts_fire = k``: the k-th timed wait
        (k = 0: every one) that finds its condition false when it starts is made to last longer
        than its timeout -- the peer it waits for is slow or stalled, which no finite timeout
        excludes.  Fault-free runs never time out: simulated time only advances by steps."""
        if timeout is None:
            self.sched_point(op, cond=cond)
            return True
        if timeout <= 0:
            self.sched_point(op)
            return bool(cond())
        self.sched_point(op)  # the call itself
        if cond():
            return True
        plan = self.faults.get("timeouts_fire")
        if plan is not None:
            n = self.next_id("timed_wait_unsatisfied")
            if plan == 0 or plan == n:
                self.probe("fault_timeout_fired")
                self.note("fault", "timeout", op[0], n)
                fired = self.faults.setdefault("_fired", {})
                fired["timeouts_fire"] = fired.get("timeouts_fire", 0) + 1
                return False
        self.sched_point(op, cond=cond)
        return True

    def kill(self, task: Task) -> None:
        """The simulated process dies now (SIGTERM/SIGKILL): it is never
        scheduled again and none of its pending ``finally`` blocks run."""
        if task.state not in ("done", "killed"):
            task.state = "killed"
            self.log.append(("note", "killed", task.name))

    # ------------------------------------------------------------------- run
    def _choose(self, n: int) -> int:
        if n == 1:
            return 0
        self.multi_choice_steps += 1
        if self.replay is not None:
            if self.replay_pos < len(self.replay):
                idx = self.replay[self.replay_pos] % n
            else:
                idx = 0 if self.default_choice is None else self.default_choice % n
            self.replay_pos += 1
        elif self.default_choice is not None:
            idx = self.default_choice % n
        elif self.policy == "first":
            idx = 0
        elif self.policy == "last":
            idx = n - 1
        elif self.policy == "rr":
            idx = self.steps % n
        else:
            idx = self.prng.below(n)
        self.choices.append(idx)
        return idx

    def draw(self, n: int) -> int:
        """A nondeterministic choice made by a simulated component (message
        matching, eager vs synchronous send, ...): recorded and replayed exactly
        like a scheduling choice."""
        return self._choose(n) if n > 1 else 0

    def run(self, main_fn, *args, name: str = "main", **kwargs) -> str:
        global _CURRENT
        if _CURRENT is not None:
            raise SimInternalError("nested simulation")
        _CURRENT = self
        if self.fs_root:
            _install_audit_hook()
        self.log.append(("seed", self.seed))
        try:
            self.main = self.spawn(name, main_fn, *args, kind="main", **kwargs)
            while True:
                alive = [t for t in self.tasks if t.state not in ("done", "killed")]
                ka = self.faults.get("kill_all_at")
                if ka is not None and self.steps >= ka and alive:
                    # the whole process group dies (job killed): nothing runs any more; buffers of
                    # files that simulated processes still hold open are lost with them
                    self.log.append(("note", "fault", "KILL-ALL", self.steps))
                    fired = self.faults.setdefault("_fired", {})
                    fired["kill_all"] = 1
                    for t in alive:
                        self.kill(t)
                    self.verdict = "killed_all"
                    break
                km = self.faults.get("kill_main_at")
                if km is not None and self.steps >= km and self.main.state not in ("done", "killed"):
                    # only the main process dies (SIGKILL): its children are orphaned and keep running
                    self.log.append(("note", "fault", "KILL-MAIN", self.steps))
                    fired = self.faults.setdefault("_fired", {})
                    fired["kill_main"] = 1
                    self.kill(self.main)
                    continue
                live = [t for t in alive if not t.daemon]
                if not live:
                    self.verdict = Verdict.COMPLETE
                    break
                runnable = [t for t in alive if t.cond is None or t.cond()]
                if not runnable:
                    self.verdict = Verdict.DEADLOCK
                    self.blocked_report = [
                        dict(task=t.name, op=_jsonable(t.op)) for t in live
                    ]
                    self.log.append(
                        ("deadlock", tuple((t.name, t.op) for t in live))
                    )
                    break
                if self.steps >= self.step_cap:
                    self.verdict = Verdict.STEP_CAP
                    self.log.append(("step_cap", self.steps))
                    break
                if len(runnable) > self.max_runnable:
                    self.max_runnable = len(runnable)
                t = runnable[self._choose(len(runnable))]
                kp = self.faults.get("kill_task")
                if kp is not None and t.name.startswith(kp[0]):
                    seen = self.next_id("kill_task_seen")
                    if seen == kp[1]:
                        # the simulated process dies from a signal right here
                        fired = self.faults.setdefault("_fired", {})
                        fired["kill_task"] = fired.get("kill_task", 0) + 1
                        self.log.append(("note", "fault", "SIGKILL", t.name, t.op))
                        self.kill(t)
                        continue
                self.steps += 1
                self.log.append((self.steps, t.name, t.op))
                t.cond = None
                self.current = t
                t.sem.release()
                self.ctrl.acquire()
                self.current = None
            return self.verdict
        finally:
            _CURRENT = None

    def cleanup(self) -> int:
        """Reclaim parked threads after all oracles have been evaluated.  They
        unwind through ``SimAbort`` one at a time; the file-system side effects
        of that unwinding land in a scratch directory that is about to be
        deleted.  Returns the number of threads that could not be reclaimed."""
        global _CURRENT
        self.aborting = True
        leaked = 0
        for t in self.tasks:
            if t.thread.is_alive():
                t.sem.release()
                t.thread.join(timeout=5.0)
                if t.thread.is_alive():
                    leaked += 1
        _CURRENT = None
        return leaked

    # ---------------------------------------------------------------- output
    def clock(self) -> float:
        """Logical clock: one millisecond per scheduler step."""
        return self.steps * 1e-3

    def digest(self) -> str:
        h = hashlib.sha256()
        for ev in self.log:
            h.update(repr(_jsonable(ev)).encode())
            h.update(b"\n")
        return h.hexdigest()

    def head(self, n: int = 30) -> list:
        return [_jsonable(ev) for ev in self.log[:n]]

    def tail(self, n: int = 30) -> list:
        return [_jsonable(ev) for ev in self.log[-n:]]

    # --------------------------------------------------------- file-race scan
    def file_races(self) -> list[tuple]:
        """Pairs of audited accesses to the same path (or a tree operation and a
        path below it), at least one writing, by different tasks with concurrent
        vector clocks."""
        races = []
        acc = self.fs_accesses
        by_path: dict[str, list] = {}
        trees = []
        for a in acc:
            path, write, tree = a[0], a[1], a[2]
            if tree:
                trees.append(a)
            by_path.setdefault(path, []).append(a)

        def concurrent(c1, c2) -> bool:
            le12 = all(v <= c2.get(k, -1) for k, v in c1.items())
            le21 = all(v <= c1.get(k, -1) for k, v in c2.items())
            return not le12 and not le21

        seen = set()
        for path, lst in by_path.items():
            for i in range(len(lst)):
                for j in range(i + 1, len(lst)):
                    a, b = lst[i], lst[j]
                    if a[3] == b[3] or not (a[1] or b[1]):
                        continue
                    if concurrent(a[4], b[4]):
                        key = (path, a[5], b[5])
                        if key not in seen:
                            seen.add(key)
                            races.append((path, a[5], a[6], b[5], b[6]))
        for tr in trees:
            prefix = tr[0].rstrip("/") + "/"
            for a in acc:
                if a is tr or a[3] == tr[3] or not a[0].startswith(prefix):
                    continue
                if concurrent(a[4], tr[4]):
                    key = (tr[0], a[0], tr[5], a[5])
                    if key not in seen:
                        seen.add(key)
                        races.append((a[0], tr[5], tr[6], a[5], a[6]))
        return races


def _jsonable(x):
    if isinstance(x, (tuple, list)):
        return [_jsonable(v) for v in x]
    if isinstance(x, (str, int, float, bool)) or x is None:
        return x
    return repr(x)


# --------------------------------------------------------------------------
# audited file-system events -> scheduling points
# --------------------------------------------------------------------------
_WRITE_FLAGS = os.O_WRONLY | os.O_RDWR | os.O_CREAT | os.O_TRUNC | os.O_APPEND


def _install_audit_hook() -> None:
    global _AUDIT_INSTALLED
    if _AUDIT_INSTALLED:
        return
    _AUDIT_INSTALLED = True
    sys.addaudithook(_audit)


def _rel(sim: Sim, path) -> str | None:
    if isinstance(path, int) or path is None:
        return None
    try:
        p = os.fspath(path)
    except TypeError:
        return None
    if isinstance(p, bytes):
        p = p.decode("utf-8", "replace")
    if not p.startswith("/"):
        p = os.path.join(os.getcwd(), p)
    p = os.path.normpath(p)
    root = sim.fs_root
    if p == root:
        return "."
    if p.startswith(root + "/"):
        return p[len(root) + 1 :]
    return None


def _audit(event: str, args) -> None:
    sim = _CURRENT
    if sim is None or sim.fs_root is None:
        return
    t = getattr(_tls, "task", None)
    if t is None or t.sim is not sim or getattr(_tls, "in_hook", False):
        return
    if event == "open":
        path, mode, flags = args
        rel = _rel(sim, path)
        if rel is None:
            return
        write = bool(flags & _WRITE_FLAGS) if isinstance(flags, int) else False
        _fs_event(sim, t, "open-w" if write else "open-r", rel, write, False)
        if write and isinstance(flags, int) and flags & (os.O_CREAT | os.O_TRUNC):
            # make "created / truncated but still empty" observable
            _tls.in_hook = True
            try:
                try:
                    fd = os.open(
                        os.path.join(sim.fs_root, rel),
                        flags & (os.O_CREAT | os.O_TRUNC | os.O_WRONLY | os.O_RDWR),
                        0o666,
                    )
                    os.close(fd)
                    ok = True
                except OSError:
                    ok = False
            finally:
                _tls.in_hook = False
            if ok:
                sim.sched_point(("fs", "opened-w", rel))
    elif event in ("os.mkdir", "os.rmdir", "os.remove"):
        rel = _rel(sim, args[0])
        if rel is not None:
            _fs_event(sim, t, event[3:], rel, True, False)
    elif event == "os.rename":
        r1, r2 = _rel(sim, args[0]), _rel(sim, args[1])
        if r1 is not None or r2 is not None:
            _fs_event(sim, t, "rename", r1 or r2, True, True)
            if r1 is not None and r2 is not None:
                sim.fs_accesses.append(
                    (r2, True, True, t.tid, dict(t.vc), t.name, "rename-dst")
                )
    elif event == "shutil.rmtree":
        rel = _rel(sim, args[0])
        if rel is not None:
            _fs_event(sim, t, "rmtree", rel, True, True)
    elif event in ("os.scandir", "os.listdir"):
        rel = _rel(sim, args[0])
        if rel is not None:
            _fs_event(sim, t, "scandir", rel, False, False)


def _fs_event(sim: Sim, t: Task, what: str, rel: str, write: bool, tree: bool) -> None:
    sim.sched_point(("fs", what, rel))
    # the access happens right after we are scheduled again
    sim.fs_accesses.append((rel, write, tree, t.tid, dict(t.vc), t.name, what))
    plan = sim.faults.get("fs_errno")
    if plan is not None and write:
        k = sim.next_id("fs_mutation")
        at, code, name, sticky = plan
        if k == at or (sticky and k > at):
            fired = sim.faults.setdefault("_fired", {})
            fired[name] = fired.get(name, 0) + 1
            sim.log.append(("note", "fault", name, what, rel, t.name))
            raise OSError(code, os.strerror(code), rel)
