"""Run a function in a forked child and return its (pickled) result: real
process isolation for reference computations that must not see -- or leave --
any in-process state of the session under test."""

from __future__ import annotations

import os
import pickle
import signal
import sys
import traceback


class IsolatedError(Exception):
    pass


def run_isolated(fn, *, timeout: int = 300):
    rfd, wfd = os.pipe()
    sys.stdout.flush()
    sys.stderr.flush()
    pid = os.fork()
    if pid == 0:
        os.close(rfd)
        code = 0
        try:
            signal.signal(signal.SIGALRM, signal.SIG_DFL)
            signal.alarm(timeout)
            try:
                res = ("ok", fn())
            except BaseException as err:  # noqa: BLE001
                res = ("exception", type(err).__name__, str(err)[:500], traceback.format_exc()[-1500:])
            with os.fdopen(wfd, "wb") as f:
                f.write(pickle.dumps(res))
        except BaseException:  # noqa: BLE001
            code = 3
        finally:
            os._exit(code)
    os.close(wfd)
    chunks = []
    with os.fdopen(rfd, "rb") as f:
        while True:
            b = f.read(1 << 16)
            if not b:
                break
            chunks.append(b)
    _, status = os.waitpid(pid, 0)
    code = os.waitstatus_to_exitcode(status)
    if code != 0 or not chunks:
        raise IsolatedError(f"isolated child exited with {code}")
    return pickle.loads(b"".join(chunks))
