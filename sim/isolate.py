"""Run a function in a forked child and return its (pickled) result: real
process isolation for reference computations that must not see -- or leave --
any in-process state of the session under test."""

from __future__ import annotations

import os
import pickle
import signal
import struct
import sys
import traceback


class IsolatedError(Exception):
    pass


def run_isolated(fn, *, timeout: int = 300):
    rfd, wfd = os.pipe()
    sys.stdout.flush()
    sys.stderr.flush()
    pid = os.fork()
    if pid == 0:
        os.close(rfd)
        code = 0
        try:
            signal.signal(signal.SIGALRM, signal.SIG_DFL)
            signal.alarm(timeout)
            try:
                res = ("ok", fn())
            except BaseException as err:  # noqa: BLE001
                res = ("exception", type(err).__name__, str(err)[:500], traceback.format_exc()[-1500:])
            with os.fdopen(wfd, "wb") as f:
                f.write(pickle.dumps(res))
        except BaseException:  # noqa: BLE001
            code = 3
        finally:
            os._exit(code)
    os.close(wfd)
    chunks = []
    with os.fdopen(rfd, "rb") as f:
        while True:
            b = f.read(1 << 16)
            if not b:
                break
            chunks.append(b)
    _, status = os.waitpid(pid, 0)
    code = os.waitstatus_to_exitcode(status)
    if code != 0 or not chunks:
        raise IsolatedError(f"isolated child exited with {code}")
    return pickle.loads(b"".join(chunks))


def _read_exact(fd: int, n: int) -> bytes:
    chunks = []
    while n:
        b = os.read(fd, min(n, 1 << 20))
        if not b:
            raise EOFError
        chunks.append(b)
        n -= len(b)
    return b"".join(chunks)


def _write_all(fd: int, data: bytes) -> None:
    view = memoryview(data)
    while view:
        n = os.write(fd, view)
        view = view[n:]


class Zygote:
    """A *pristine* process that answers requests, each in a child of its own.

    ``run_isolated`` forks from the caller, so the child starts with every module-level variable,
    memo and registry the session under test has filled in by then: good enough to keep a reference
    computation from *leaving* state behind, not good enough to keep it from *seeing* state.  A
    ``Zygote`` is forked before the session touches the library (imports only) and stays idle;
    ``call(name, *args)`` makes it fork a grandchild that runs ``handlers[name](*args)`` and returns
    ``("ok", value)`` or ``("exception", type, text, traceback)`` like ``run_isolated``.  What a
    grandchild sees is what a freshly started process would see - this is the "next process that
    uses the cache" and the "measurement on fresh caches" of the checks.  Arguments and results
    travel pickled; handlers are module-level functions known at fork time.
    """

    def __init__(self, handlers: dict):
        self.handlers = dict(handlers)
        req_r, req_w = os.pipe()
        res_r, res_w = os.pipe()
        sys.stdout.flush()
        sys.stderr.flush()
        pid = os.fork()
        if pid == 0:
            code = 0
            try:
                os.close(req_w)
                os.close(res_r)
                self._serve(req_r, res_w)
            except BaseException:  # noqa: BLE001
                code = 3
            finally:
                os._exit(code)
        os.close(req_r)
        os.close(res_w)
        self.pid, self.req_w, self.res_r = pid, req_w, res_r
        self.calls = 0

    def _serve(self, req_r: int, res_w: int) -> None:
        signal.signal(signal.SIGALRM, signal.SIG_DFL)
        while True:
            try:
                (n,) = struct.unpack("<I", _read_exact(req_r, 4))
            except EOFError:
                return
            name, args, timeout = pickle.loads(_read_exact(req_r, n))
            r, w = os.pipe()
            pid = os.fork()
            if pid == 0:
                code = 0
                try:
                    os.close(r)
                    os.close(req_r)
                    os.close(res_w)
                    signal.alarm(timeout)
                    try:
                        res = ("ok", self.handlers[name](*args))
                    except BaseException as err:  # noqa: BLE001
                        res = ("exception", type(err).__name__, str(err)[:500], traceback.format_exc()[-1500:])
                    _write_all(w, pickle.dumps(res))
                except BaseException:  # noqa: BLE001
                    code = 3
                finally:
                    os._exit(code)
            os.close(w)
            chunks = []
            while True:
                b = os.read(r, 1 << 20)
                if not b:
                    break
                chunks.append(b)
            os.close(r)
            _, status = os.waitpid(pid, 0)
            code = os.waitstatus_to_exitcode(status)
            blob = b"".join(chunks)
            if code != 0 or not blob:
                blob = pickle.dumps(("died", code))
            _write_all(res_w, struct.pack("<I", len(blob)) + blob)

    def call(self, name: str, *args, timeout: int = 300):
        if name not in self.handlers:
            raise KeyError(name)
        blob = pickle.dumps((name, args, timeout))
        self.calls += 1
        try:
            _write_all(self.req_w, struct.pack("<I", len(blob)) + blob)
            (n,) = struct.unpack("<I", _read_exact(self.res_r, 4))
            res = pickle.loads(_read_exact(self.res_r, n))
        except (EOFError, OSError) as err:
            raise IsolatedError(f"zygote gone: {err!r}") from err
        if res[0] == "died":
            raise IsolatedError(f"isolated child exited with {res[1]}")
        return res

    def close(self) -> None:
        for fd in (self.req_w, self.res_r):
            try:
                os.close(fd)
            except OSError:
                pass
        try:
            os.waitpid(self.pid, 0)
        except ChildProcessError:
            pass
