"""
Measurement scenes: four small catalogs on shared patch centres (reference and
its randoms with redshifts, unknown and its randoms), created sequentially with
the real library, used by the checks that start from *fixed cached catalogs*
(C03, C05, C07) and by the end-to-end MPI programs (C06).
"""

from __future__ import annotations

import os
import shutil

import numpy as np

from sim import workloads as wl

CATS = ("ref", "unk", "rref", "runk")


class sequential_mode:
    """Plain single-process library mode: ``_num_processes() -> 1`` (the real
    one shells out to ``lscpu`` on every call)."""

    def __enter__(self):
        import yaw.utils.parallel as ypar

        self._saved = ypar._num_processes
        ypar._num_processes = lambda: 1
        return self

    def __exit__(self, *exc):
        import yaw.utils.parallel as ypar

        ypar._num_processes = self._saved


def scene_records(scene: dict) -> dict[str, dict]:
    """Records of the four catalogs from explicit scene parameters."""
    edges = scene["edges"]
    region = scene.get("region", "box")
    seed = scene["data_seed"]
    wk = dict(w_kind=scene.get("w_kind", "dyadic"), nclumps=scene.get("k", 4))
    out = {}
    out["ref"] = wl.gen_records(
        seed * 4 + 0, scene["n_ref"], region=region, has_w=scene.get("w_ref", True), has_z=True, zedges=edges, **wk
    )
    out["unk"] = wl.gen_records(
        seed * 4 + 1, scene["n_unk"], region=region, has_w=scene.get("w_unk", False), has_z=scene.get("z_unk", False), zedges=edges, **wk
    )
    out["rref"] = wl.gen_records(
        seed * 4 + 2, scene["n_rref"], region=region, has_w=scene.get("w_rref", False), has_z=True, zedges=edges, **wk
    )
    out["runk"] = wl.gen_records(
        seed * 4 + 3, scene["n_runk"], region=region, has_w=scene.get("w_runk", True), has_z=scene.get("z_runk", False), zedges=edges, **wk
    )
    return out


def wide_records(scene: dict, ref: dict, centers: np.ndarray) -> dict:
    rng = np.random.default_rng(scene["data_seed"] + 991)
    rec = {k_: np.array(v) for k_, v in ref.items()}
    n = len(rec["ra"])
    w = rng.uniform(0.5, 1.5, n)
    ids, _ = wl.nearest_center(np.deg2rad(np.column_stack([rec["ra"], rec["dec"]])), centers)
    heavy = ids == int(rng.integers(0, len(centers)))
    w[heavy] *= 10.0 ** rng.uniform(6.0, 9.0)
    rec["w"] = w
    return rec


def scene_centers(scene: dict, records: dict) -> np.ndarray:
    """Centres such that every centre attracts at least one record of every
    catalog (fault-free scenes)."""
    centers = wl.gen_centers(scene["data_seed"] + 17, scene["k"], scene.get("region", "box"))
    for _ in range(6):
        before = centers.copy()
        for name in CATS:
            centers = wl.ensure_nonempty_centers(records[name], centers)
        if centers.shape == before.shape and np.array_equal(centers, before):
            break
    # final check: drop centres that are still empty for some catalog
    ok = np.ones(len(centers), dtype=bool)
    for name in CATS:
        r = records[name]
        radec = np.deg2rad(np.column_stack([r["ra"], r["dec"]]))
        if len(radec) == 0:
            return centers[:0]
        ids, _ = wl.nearest_center(radec, centers)
        ok &= np.bincount(ids, minlength=len(centers)) > 0
    return centers if ok.all() else centers[:0]


def build_scene(scene: dict, root: str, *, drop_meta: bool = False) -> dict | None:
    """Create the four catalogs sequentially under ``root``/<name>.  Returns
    None when the scene is degenerate (a centre without objects)."""
    import yaw

    records = scene_records(scene)
    centers = scene_centers(scene, records)
    if len(centers) < 2:
        return None
    # every patch of the redshift catalogs needs an object inside the binning:
    # build_trees trips over an unbound local otherwise (C10 territory, DESIGN 5)
    edges = scene["edges"]
    for name in CATS:
        r = records[name]
        if "z" not in r:
            continue
        radec = np.deg2rad(np.column_stack([r["ra"], r["dec"]]))
        ids, _ = wl.nearest_center(radec, centers)
        inside = (r["z"] > edges[0]) & (r["z"] < edges[-1])
        if (np.bincount(ids[inside], minlength=len(centers)) == 0).any():
            return None
    coords = yaw.AngularCoordinates(centers)
    paths = {}
    with sequential_mode():
        for name in CATS:
            path = os.path.join(root, name)
            df = wl.make_dataframe(records[name])
            yaw.Catalog.from_dataframe(
                path,
                df,
                patch_centers=coords,
                chunksize=scene.get("chunksize"),
                max_workers=1,
                **wl.column_kwargs(records[name]),
            )
            paths[name] = path
        if scene.get("wide"):
            # the reference sample once more with weights spanning many orders of magnitude (not
            # exactly representable): one patch dominates some bins, so that "sum of the others"
            # and "total minus own" differ by far more than rounding of the result
            rec = wide_records(scene, records["ref"], centers)
            yaw.Catalog.from_dataframe(
                os.path.join(root, "wide"), wl.make_dataframe(rec), patch_centers=coords,
                chunksize=scene.get("chunksize"), max_workers=1, **wl.column_kwargs(rec),
            )
            paths["wide"] = os.path.join(root, "wide")
        if scene.get("many"):
            # a catalog with hundreds of (tiny) patches, defined by a patch-index column: index
            # arithmetic in the resampling code meets numbers it never sees with a handful of patches
            npatch = int(scene["many"])
            rng = np.random.default_rng(scene["data_seed"] + 4242)
            if scene.get("many_flat"):
                # equal patches: two objects each, all in the first bin, weights 1 +- 1 %: the
                # leave-one-out samples share a value that is ~1e5 times their scatter
                m = 2 * npatch
                pid = np.concatenate([np.arange(npatch), np.arange(npatch)])
                rec = dict(
                    ra=rng.uniform(10.0, 30.0, m), dec=rng.uniform(-10.0, 10.0, m),
                    w=1.0 + 0.01 * rng.uniform(-1.0, 1.0, m),
                    z=np.full(m, 0.5 * (edges[0] + edges[1])),
                )
            else:
                m = 2 * npatch + int(rng.integers(0, npatch))
                pid = np.concatenate([np.arange(npatch), np.arange(npatch), rng.integers(0, npatch, m - 2 * npatch)])
                rec = dict(
                    ra=rng.uniform(10.0, 30.0, m), dec=rng.uniform(-10.0, 10.0, m),
                    w=rng.integers(1, 17, m) / 4.0, z=rng.uniform(edges[0], edges[-1], m),
                )
            df = wl.make_dataframe(rec, pid.astype("i4"))
            yaw.Catalog.from_dataframe(
                os.path.join(root, "many"), df, chunksize=scene.get("chunksize"), max_workers=1,
                **wl.column_kwargs(rec, patch_name=True),
            )
            paths["many"] = os.path.join(root, "many")
    if drop_meta:
        strip_derived(root)
    return dict(paths=paths, centers=centers, records=records)


def strip_derived(root: str, *, meta: bool = True, trees: bool = True) -> None:
    """Remove everything but ``patch_ids.bin`` and ``data.bin``."""
    for dirpath, _, files in os.walk(root):
        for fn in files:
            if (meta and fn == "meta.yml") or (trees and fn in ("binning", "trees.pkl")):
                os.remove(os.path.join(dirpath, fn))


def copy_scene(src_root: str, dst_root: str) -> dict[str, str]:
    shutil.copytree(src_root, dst_root)
    out = {name: os.path.join(dst_root, name) for name in CATS}
    for extra in ("wide", "many"):
        if os.path.isdir(os.path.join(dst_root, extra)):
            out[extra] = os.path.join(dst_root, extra)
    return out


def gen_scene(prng, *, small: bool = False) -> dict:
    """Draw scene parameters (swarm style)."""
    hi = 80 if small else 160
    edges = prng.choice(wl.EDGE_SPECS)
    scale = dict(prng.choice(wl.SCALE_SPECS))
    return dict(
        data_seed=prng.below(1 << 30),
        region=prng.choice(["box", "box", "strip", "wrap"]),
        k=prng.randint(2, 6),
        n_ref=prng.randint(24, hi),
        n_unk=prng.randint(24, hi),
        n_rref=prng.randint(24, hi),
        n_runk=prng.randint(24, hi),
        w_ref=prng.chance(2, 3),
        w_unk=prng.chance(1, 2),
        w_rref=prng.chance(1, 3),
        w_runk=prng.chance(1, 2),
        z_unk=prng.chance(1, 4),
        z_runk=prng.chance(1, 4),
        chunksize=prng.choice([None, 7, 33]),
        edges=list(edges),
        closed=prng.choice(["right", "left"]),
        scale=scale,
    )


def scene_config(scene: dict):
    spec = dict(scene["scale"])
    spec["edges"] = scene["edges"]
    spec["closed"] = scene["closed"]
    if scene.get("method"):
        spec["method"] = scene["method"]
    if scene.get("rweight") is not None:
        spec["rweight"], spec["resolution"] = scene["rweight"], scene.get("resolution", 8)
    return wl.make_config(spec)
