"""
Determinism self-test (``check.py selftest``): for every claimed property a
sample of cases is executed in *fresh interpreters* under PYTHONHASHSEED=0 and
=1, with 1 and with 16 harness processes; all event-log digests and verdicts
must agree.  Any difference is a harness error (exit 2), never a verdict about
a property.
"""

from __future__ import annotations

import json
import os
import subprocess
import sys
import time

VERIF = os.path.dirname(os.path.dirname(os.path.abspath(__file__)))
PROPS = ["C02", "C03", "C05", "C06", "C07", "C08", "C09", "C12", "C16", "C18"]
NCASES = dict(C02=48, C03=8, C05=8, C06=16, C07=4, C08=7, C09=48, C12=32, C16=4, C18=32)


def digests(mod, prop: str, ncases: int, jobs: int, seed: int) -> dict:
    from sim.runner import run_parallel

    cases = mod.gen_cases("quick", seed, None)[:ncases]
    res = run_parallel(cases, mod.run_case, jobs=jobs, batch=1 if jobs > 1 else ncases, case_timeout=600.0)
    return {str(i): [r.get("verdict"), r.get("digest")] if r else None for i, r in enumerate(res)}


def main(seed: int, jobs: int, props=None) -> int:
    t0 = time.monotonic()
    bad = 0
    total = 0
    for prop in props or PROPS:
        runs = []
        procs = []
        for hashseed, j in (("0", 16), ("1", 16), ("0", 1), ("1", 1)):
            env = dict(os.environ, PYTHONHASHSEED=hashseed, VERIF_SEED=str(seed))
            n = NCASES[prop] if j > 1 else max(2, NCASES[prop] // 4)
            cmd = [sys.executable, os.path.join(VERIF, "check.py"), "digests", prop, str(n), str(j)]
            procs.append((hashseed, j, n, subprocess.Popen(cmd, env=env, stdout=subprocess.PIPE, stderr=subprocess.DEVNULL)))
            if j == 1 or len(procs) >= 2:
                for hs, jj, nn, p in procs:
                    out, _ = p.communicate(timeout=1800)
                    line = [ln for ln in out.decode().splitlines() if ln.startswith("{")]
                    runs.append((hs, jj, nn, json.loads(line[-1]) if line else None))
                procs = []
        base = runs[0][3]
        if base is None:
            print(f"HARNESS-ERROR selftest {prop}: no output from digest run")
            bad += 1
            continue
        for hs, jj, nn, d in runs[1:]:
            if d is None:
                print(f"HARNESS-ERROR selftest {prop}: no output (PYTHONHASHSEED={hs}, jobs={jj})")
                bad += 1
                continue
            for i in range(nn):
                total += 1
                if d.get(str(i)) != base.get(str(i)):
                    bad += 1
                    print(
                        f"HARNESS-ERROR nondeterminism {prop} case {i}: {base.get(str(i))} (hashseed 0, 16 procs) vs "
                        f"{d.get(str(i))} (hashseed {hs}, {jj} procs)"
                    )
        print(f"[selftest] {prop}: {len(base)} cases x 4 configurations compared", flush=True)
    print(f"[selftest] comparisons={total} mismatches={bad} wall={time.monotonic() - t0:.0f}s")
    return 2 if bad else 0
