"""
E2 driver: crash / errno injection at libc level through the LD_PRELOAD shim
(crashfs/shim.c).  The check process is (re-)executed with LD_PRELOAD set, the
shim stays disarmed except inside forked *workload children*.
"""

from __future__ import annotations

import ctypes
import errno as errno_mod
import os
import pickle
import subprocess
import sys
import traceback

VERIF = os.path.dirname(os.path.dirname(os.path.abspath(__file__)))
SHIM_SRC = os.path.join(VERIF, "crashfs", "shim.c")
SHIM_LIB = os.path.join(VERIF, "build", "libcrashfs.so")

_lib = None


def build_shim() -> str:
    """(Re)build the shim when absent or older than its source."""
    os.makedirs(os.path.dirname(SHIM_LIB), exist_ok=True)
    if not os.path.exists(SHIM_LIB) or os.path.getmtime(SHIM_LIB) < os.path.getmtime(SHIM_SRC):
        tmp = SHIM_LIB + f".{os.getpid()}.tmp"
        subprocess.run(
            ["clang", "-O1", "-shared", "-fPIC", SHIM_SRC, "-o", tmp, "-ldl"], check=True
        )
        os.replace(tmp, SHIM_LIB)
    return SHIM_LIB


def ensure_preloaded(argv: list[str]) -> None:
    """Re-exec the interpreter with the shim preloaded (once)."""
    lib = build_shim()
    if lib in os.environ.get("LD_PRELOAD", ""):
        return
    env = dict(os.environ)
    env["LD_PRELOAD"] = lib + (":" + env["LD_PRELOAD"] if env.get("LD_PRELOAD") else "")
    os.execve(sys.executable, [sys.executable, *argv], env)


def lib():
    global _lib
    if _lib is None:
        h = ctypes.CDLL(None)
        try:
            h.crashfs_set_root.argtypes = [ctypes.c_char_p]
            h.crashfs_set_log.argtypes = [ctypes.c_char_p]
            h.crashfs_arm.argtypes = [ctypes.c_int, ctypes.c_long, ctypes.c_int, ctypes.c_int]
            h.crashfs_count.restype = ctypes.c_long
        except AttributeError as err:
            raise RuntimeError("crashfs shim is not preloaded") from err
        _lib = h
    return _lib


MODE_COUNT, MODE_CRASH, MODE_ERRNO, MODE_COUNT_READS, MODE_READ_ERRNO = 0, 1, 2, 3, 4
ERRNOS = dict(ENOSPC=errno_mod.ENOSPC, EACCES=errno_mod.EACCES, EIO=errno_mod.EIO, EROFS=errno_mod.EROFS)


def arm(root: str, log: str | None, mode: int, k: int = -1, err: int = 0, sticky: bool = False) -> None:
    h = lib()
    h.crashfs_set_root(os.path.realpath(root).encode())
    h.crashfs_set_log(log.encode() if log else None)
    h.crashfs_arm(mode, k, err, int(sticky))


def disarm() -> int:
    h = lib()
    h.crashfs_disarm()
    n = int(h.crashfs_count())
    h.crashfs_set_log(None)
    return n


def read_oplog(path: str) -> list[str]:
    if not os.path.exists(path):
        return []
    with open(path) as f:
        return [line.rstrip("\n") for line in f]


class _ScandirList:
    def __init__(self, entries):
        self._entries = entries
        self._it = iter(entries)

    def __iter__(self):
        return self

    def __next__(self):
        return next(self._it)

    def __enter__(self):
        return self

    def __exit__(self, *exc):
        return False

    def close(self):
        pass


def install_scandir_permutation(seed: int) -> None:
    """Directory listing order decides in which order rmtree deletes the patch
    index file and the patch directories: sort, then apply a seeded permutation
    (workload child only)."""
    from sim.core import Prng, mix

    orig = os.scandir

    def scandir(path="."):
        with orig(path) as it:
            entries = sorted(it, key=lambda e: e.name)
        Prng(mix("scandir", seed, len(entries))).shuffle(entries)
        return _ScandirList(entries)

    os.scandir = scandir


def run_child(fn, *, timeout: float = 60.0):
    """Fork, run ``fn()`` in the child, return (exit_status, payload).  The
    payload is whatever fn returned (pickled through a pipe) or None if the child
    died first; an exception inside fn is returned as ("exception", type, text)."""
    rfd, wfd = os.pipe()
    sys.stdout.flush()
    sys.stderr.flush()
    pid = os.fork()
    if pid == 0:
        os.close(rfd)
        code = 0
        try:
            # (no faulthandler here: its watchdog state is inherited from the forking
            # process and re-arming it in the child deadlocks) -- SIGALRM kills us
            import signal

            signal.signal(signal.SIGALRM, signal.SIG_DFL)
            signal.alarm(int(timeout))
            try:
                res = ("ok", fn())
            except BaseException as err:  # noqa: BLE001
                res = ("exception", type(err).__name__, str(err)[:500], traceback.format_exc()[-2000:])
            try:
                disarm()
            except Exception:  # noqa: BLE001
                pass
            with os.fdopen(wfd, "wb") as f:
                f.write(pickle.dumps(res))
        except BaseException:  # noqa: BLE001
            code = 3
        finally:
            os._exit(code)
    os.close(wfd)
    chunks = []
    with os.fdopen(rfd, "rb") as f:
        while True:
            b = f.read(1 << 16)
            if not b:
                break
            chunks.append(b)
    _, status = os.waitpid(pid, 0)
    code = os.waitstatus_to_exitcode(status)
    payload = None
    if chunks:
        try:
            payload = pickle.loads(b"".join(chunks))
        except Exception:  # noqa: BLE001
            payload = None
    return code, payload
