"""
Fork-based case runner.

The parent imports ``yaw`` once (warm) and never runs a simulation itself; it
forks short-lived children that each supervise a batch of cases -- every case in a
process of its own -- and stream the results back over a pipe.  A child that hangs is killed by its own
``faulthandler`` watchdog (traceback to stderr) or, failing that, by the parent
through its PID; the case it was working on is reported as ``harness_error`` --
a wall-clock kill never turns into a pass.
"""

from __future__ import annotations

import faulthandler
import os
import pickle
import selectors
import signal
import struct
import sys
import time
import traceback


def _run_one(idx, item, fn, wfd: int, case_timeout: float) -> None:
    faulthandler.dump_traceback_later(case_timeout, exit=True)
    t0 = time.perf_counter()
    try:
        res = fn(item)
    except BaseException as err:  # noqa: BLE001 - harness failure, reported
        res = dict(
            verdict="harness_error",
            error=f"{type(err).__name__}: {err}",
            traceback=traceback.format_exc()[-4000:],
        )
    faulthandler.cancel_dump_traceback_later()
    res.setdefault("wall_s", time.perf_counter() - t0)
    blob = pickle.dumps((idx, res))
    data = struct.pack("<I", len(blob)) + blob
    while data:
        n = os.write(wfd, data)
        data = data[n:]


def _kill_group(pgid: int) -> None:
    try:
        os.killpg(pgid, signal.SIGKILL)
    except (ProcessLookupError, PermissionError):
        pass


def _child(batch, fn, wfd: int, case_timeout: float) -> None:
    """A batch child only supervises: every case runs in a process of its own, forked from this
    (pristine: imports only) process, so that no module-level state of the library survives from
    one case into the next one.  The case process leads a process group of its own; whatever it
    leaves behind when it ends (helper processes of a changed library, a zygote) is killed with
    that group, so that nothing keeps the result pipe open."""
    current = [0]

    def on_term(signum, frame):  # the parent gave up on this batch
        if current[0]:
            _kill_group(current[0])
        os._exit(0)

    signal.signal(signal.SIGTERM, on_term)
    try:
        for idx, item in batch:
            sys.stdout.flush()
            sys.stderr.flush()
            pid = os.fork()
            if pid == 0:
                try:
                    signal.signal(signal.SIGTERM, signal.SIG_DFL)
                    os.setpgid(0, 0)
                    _run_one(idx, item, fn, wfd, case_timeout)
                finally:
                    sys.stdout.flush()
                    sys.stderr.flush()
                    os._exit(0)
            try:
                os.setpgid(pid, pid)
            except OSError:
                pass
            current[0] = pid
            os.waitpid(pid, 0)
            _kill_group(pid)
            current[0] = 0
    finally:
        os._exit(0)


def run_parallel(
    items: list,
    fn,
    *,
    jobs: int = 16,
    batch: int = 20,
    case_timeout: float = 120.0,
    progress=None,
    deadline: float | None = None,
) -> list[dict | None]:
    """Run ``fn(item)`` for every item in forked children.  Returns a list of
    result dicts aligned with ``items``; an entry is ``None`` only if the
    wall-clock ``deadline`` (absolute ``time.monotonic()``) was reached before the
    case was started."""
    results: list[dict | None] = [None] * len(items)
    pending = [
        [(i, items[i]) for i in range(s, min(s + batch, len(items)))]
        for s in range(0, len(items), batch)
    ]
    pending.reverse()
    sel = selectors.DefaultSelector()
    live: dict[int, dict] = {}
    done_count = 0

    def spawn(b) -> None:
        rfd, wfd = os.pipe()
        sys.stdout.flush()
        sys.stderr.flush()
        pid = os.fork()
        if pid == 0:
            os.close(rfd)
            for st in live.values():
                try:
                    os.close(st["rfd"])
                except OSError:
                    pass
            _child(b, fn, wfd, case_timeout)
        os.close(wfd)
        os.set_blocking(rfd, False)
        st = dict(pid=pid, rfd=rfd, buf=b"", batch=b, got=set(), last=time.monotonic())
        live[rfd] = st
        sel.register(rfd, selectors.EVENT_READ, st)

    def finish(st) -> None:
        nonlocal done_count
        sel.unregister(st["rfd"])
        os.close(st["rfd"])
        del live[st["rfd"]]
        try:
            os.waitpid(st["pid"], 0)
        except ChildProcessError:
            pass
        missing = [(i, it) for i, it in st["batch"] if i not in st["got"]]
        if missing:
            i0, _ = missing[0]
            results[i0] = dict(
                verdict="harness_error",
                error="child process died or was killed by the watchdog while running this case",
            )
            done_count += 1
            if len(missing) > 1:
                pending.append(missing[1:])

    while pending or live:
        while pending and len(live) < jobs:
            if deadline is not None and time.monotonic() > deadline:
                pending.clear()
                break
            spawn(pending.pop())
        if not live:
            break
        events = sel.select(timeout=1.0)
        now = time.monotonic()
        for key, _ in events:
            st = key.data
            try:
                chunk = os.read(st["rfd"], 1 << 20)
            except BlockingIOError:
                continue
            if not chunk:
                finish(st)
                continue
            st["last"] = now
            st["buf"] += chunk
            while len(st["buf"]) >= 4:
                (ln,) = struct.unpack("<I", st["buf"][:4])
                if len(st["buf"]) < 4 + ln:
                    break
                idx, res = pickle.loads(st["buf"][4 : 4 + ln])
                st["buf"] = st["buf"][4 + ln :]
                results[idx] = res
                st["got"].add(idx)
                done_count += 1
                if progress:
                    progress(done_count, len(items))
        for st in list(live.values()):
            if now - st["last"] > case_timeout + 30.0:
                try:
                    # SIGTERM: the batch child kills the process group of its current case and exits
                    os.kill(st["pid"], signal.SIGKILL if st.get("termed") else signal.SIGTERM)
                except ProcessLookupError:
                    pass
                if st.get("termed"):
                    finish(st)  # do not wait for end-of-file: orphans may hold the pipe
                    continue
                st["termed"] = True
                st["last"] = now - case_timeout  # SIGKILL follows 30 s later if needed
    return results
