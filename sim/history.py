"""
E3: Hypothesis stateful machines run outside pytest.

A machine is written as an *interpreter of op lists*: rules only draw an op
tuple and hand it to ``Model.apply``.  The op list of the failing example that
Hypothesis replays last (the shrunk one) is the replay file; replaying it needs
no Hypothesis at all.
"""

from __future__ import annotations

import hashlib
import json


class HistoryViolation(AssertionError):
    def __init__(self, signature: dict, detail: str) -> None:
        super().__init__(detail)
        self.signature = signature
        self.detail = detail


class Recorder:
    """Collects per-run statistics across the examples of one Hypothesis run."""

    def __init__(self) -> None:
        self.examples = 0
        self.ops_total = 0
        self.shapes: set[str] = set()
        self.last_failure: tuple[list, HistoryViolation] | None = None
        self.probes: dict[str, int] = {}
        self.all_ops: list[str] = []

    def probe(self, name: str, inc: int = 1) -> None:
        self.probes[name] = self.probes.get(name, 0) + inc

    def finish_example(self, ops: list) -> None:
        self.examples += 1
        self.ops_total += len(ops)
        self.all_ops.append(json.dumps(ops, default=str))
        if len(ops) >= 2:
            self.shapes.add(hashlib.sha256(json.dumps(ops, default=str).encode()).hexdigest())


def shrink_history(history: list, simplify) -> list:
    """Candidate histories: drop one op (never the last, failing one), then
    simplify single arguments with ``simplify(op) -> iterable of simpler ops``."""
    out = []
    for i in range(len(history) - 1):
        out.append(history[:i] + history[i + 1 :])
    for i, op in enumerate(history):
        for simpler in simplify(op):
            if simpler != op:
                out.append(history[:i] + [simpler] + history[i + 1 :])
    return out


def run_machine(machine_factory, hyp_seed: int, max_examples: int, step_count: int):
    """Run a RuleBasedStateMachine class (built by ``machine_factory()``) with a
    fixed seed, database off, deadline off.  Returns None or the
    HistoryViolation of the shrunk failing example."""
    import hypothesis
    from hypothesis import HealthCheck, Phase, settings
    from hypothesis.stateful import run_state_machine_as_test

    machine = machine_factory()
    st = settings(
        database=None,
        deadline=None,
        report_multiple_bugs=False,
        max_examples=max_examples,
        stateful_step_count=step_count,
        suppress_health_check=list(HealthCheck),
        print_blob=False,
        derandomize=False,
        # generation only: Hypothesis' own shrinker needs minutes on these heavy
        # rules; the harness shrinks the recorded op list instead (drop ops,
        # simplify arguments), in parallel and under the same-signature rule
        phases=[Phase.generate],
    )
    try:
        run_state_machine_as_test(hypothesis.seed(hyp_seed)(machine), settings=st)
    except HistoryViolation as err:
        return err
    return None
