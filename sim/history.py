"""
E3: seeded history machines.

A machine is written as an *interpreter of op lists* (``Model.apply(op)``); the
op list of a failing example is the replay file and needs no generator at all
to be replayed.  Two producers of op lists exist:

* ``run_prng_producer`` (default): histories drawn from the harness PRNG --
  deterministic by construction;
* ``run_machine``: a Hypothesis ``RuleBasedStateMachine`` run outside pytest
  (seeded, database off, generate phase only), selectable with
  ``VERIF_HISTORY_PRODUCER=hypothesis``.  It is not the default because its
  generated example set differed between two runs with the same seed twice in
  about a thousand re-runs for a reason I could not find (DESIGN.md section 12).
"""

from __future__ import annotations

import hashlib
import json


class HistoryViolation(AssertionError):
    def __init__(self, signature: dict, detail: str) -> None:
        super().__init__(detail)
        self.signature = signature
        self.detail = detail


class Recorder:
    """Collects per-run statistics across the examples of one Hypothesis run."""

    def __init__(self) -> None:
        self.histories: list[list] = []  # op lists of all examples, in order (multi-session replay)
        self.examples = 0
        self.ops_total = 0
        self.shapes: set[str] = set()
        self.last_failure: tuple[list, HistoryViolation] | None = None
        self.probes: dict[str, int] = {}
        self.all_ops: list[str] = []
        self.example_digests: list[str] = []

    def probe(self, name: str, inc: int = 1) -> None:
        self.probes[name] = self.probes.get(name, 0) + inc

    def finish_example(self, ops: list, outcomes: list | None = None) -> None:
        self.examples += 1
        self.ops_total += len(ops)
        text = json.dumps([ops, outcomes or []], default=str)
        self.all_ops.append(text)
        self.histories.append([list(op) for op in ops])
        self.example_digests.append(hashlib.sha256(text.encode()).hexdigest()[:10])
        if len(ops) >= 2:
            self.shapes.add(hashlib.sha256(text.encode()).hexdigest())

    def digest(self) -> str:
        return hashlib.sha256("|".join(self.example_digests).encode()).hexdigest()


def shrink_history(history: list, simplify) -> list:
    """Candidate histories: drop one op (never the last, failing one), then
    simplify single arguments with ``simplify(op) -> iterable of simpler ops``."""
    out = []
    for i in range(len(history) - 1):
        out.append(history[:i] + history[i + 1 :])
    for i, op in enumerate(history):
        for simpler in simplify(op):
            if simpler != op:
                out.append(history[:i] + [simpler] + history[i + 1 :])
    return out


def producer() -> str:
    import os

    return os.environ.get("VERIF_HISTORY_PRODUCER", "prng")


def run_prng_producer(make_model, draw_op, seed: int, max_examples: int, step_count: int, rec: Recorder):
    """Histories from the harness PRNG: each example is a fresh model and
    1..step_count ops drawn by ``draw_op(prng)``.  Returns None or the
    HistoryViolation of the first failing example (``rec.last_failure`` holds its
    op list; shrinking is done by the harness)."""
    from sim.core import Prng, mix

    prng = Prng(mix("history", seed))
    for _ in range(max_examples):
        model = make_model()
        nsteps = step_count if prng.chance(1, 2) else 1 + prng.below(step_count)
        failure = None
        try:
            for _ in range(nsteps):
                model.apply(draw_op(prng))
        except HistoryViolation as err:
            failure = err
            rec.last_failure = (list(model.ops), err)
        finally:
            model.close()
            rec.finish_example(model.ops, getattr(model, "outcomes", None))
        if failure is not None:
            return failure
    return None


def run_machine(machine_factory, hyp_seed: int, max_examples: int, step_count: int):
    """Run a RuleBasedStateMachine class (built by ``machine_factory()``) with a
    fixed seed, database off, deadline off.  Returns None or the
    HistoryViolation of the shrunk failing example."""
    import hypothesis
    from hypothesis import HealthCheck, Phase, settings
    from hypothesis.stateful import run_state_machine_as_test

    machine = machine_factory()
    st = settings(
        database=None,
        deadline=None,
        report_multiple_bugs=False,
        max_examples=max_examples,
        stateful_step_count=step_count,
        suppress_health_check=list(HealthCheck),
        print_blob=False,
        derandomize=False,
        # generation only: Hypothesis' own shrinker needs minutes on these heavy
        # rules; the harness shrinks the recorded op list instead (drop ops,
        # simplify arguments), in parallel and under the same-signature rule
        phases=[Phase.generate],
    )
    try:
        run_state_machine_as_test(hypothesis.seed(hyp_seed)(machine), settings=st)
    except HistoryViolation as err:
        return err
    return None


def replay_form(case: dict, ops: list, signature: dict, rec: "Recorder", single) -> dict:
    """What to put into the replay file for a failing example.  The examples of one case run one
    after the other in one process: module-level state of the library survives from one example
    into the next, so the failing history alone need not reproduce the failure.  ``single(case,
    ops)`` re-runs that history alone in a pristine process and returns the signature it finds (or
    None); if that is not the same violation, the replay consists of *all* sessions up to the
    failing one, run in order in one process."""
    try:
        found = single(case, ops)
    except Exception:  # noqa: BLE001
        found = None
    if found == signature:
        return dict(history=ops)
    return dict(sessions=[list(h) for h in rec.histories])


def shrink_sessions(sessions: list) -> list:
    """Candidates with one of the earlier sessions dropped (the last one fails)."""
    return [sessions[:i] + sessions[i + 1 :] for i in range(len(sessions) - 1)]
