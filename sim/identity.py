"""
Object identity behind a seam.

CPython may hand the ``id()`` of a released object to the next object it creates; *whether* it
does depends on the state of the allocator, which no seed controls.  Code that keeps state keyed by
``id()`` (or that otherwise assumes identities are never recycled) therefore misbehaves only on
some heaps, and a failing run does not replay.

``IdentitySeam`` replaces ``builtins.id`` for the duration of a ``with`` block by a deterministic
model of the same contract:

* two objects alive at the same time never share an identity, an object keeps its identity for
  life (both as in CPython);
* once an object is released its identity goes to a free list *of its type* (the allocator's size
  classes) and is handed to the next object of that type that is asked for its identity.  The
  order in which the free list is drained is a recorded policy: ``fifo``, ``lifo`` or seeded
  ``random``;
* objects that cannot be weakly referenced keep their real address (large numbers; the recycled
  identities are small, so the two ranges never meet).

The cyclic garbage collector is switched off inside the block, so that the instant at which cycles
are released does not depend on the allocation counters inherited from the parent process.
"""

from __future__ import annotations

import builtins
import gc
import weakref

_real_id = builtins.id


class IdentitySeam:
    def __init__(self, policy: str = "fifo", seed: int = 0):
        assert policy in ("fifo", "lifo", "random")
        self.policy = policy
        self.state = (seed * 0x9E3779B97F4A7C15 + 0x1234567) & 0xFFFFFFFFFFFFFFFF
        self.live: dict[int, tuple[int, weakref.ref]] = {}
        self.free: dict[type, list[int]] = {}
        self.next = 1 << 8
        self.asked = 0
        self.recycled = 0
        self.fallback = 0
        self.active = False

    def _rand(self, n: int) -> int:
        # splitmix64 step
        self.state = (self.state + 0x9E3779B97F4A7C15) & 0xFFFFFFFFFFFFFFFF
        z = self.state
        z = ((z ^ (z >> 30)) * 0xBF58476D1CE4E5B9) & 0xFFFFFFFFFFFFFFFF
        z = ((z ^ (z >> 27)) * 0x94D049BB133111EB) & 0xFFFFFFFFFFFFFFFF
        return ((z ^ (z >> 31)) % n) if n else 0

    def id(self, obj) -> int:
        rid = _real_id(obj)
        if not self.active:
            return rid
        ent = self.live.get(rid)
        if ent is not None and ent[1]() is obj:
            return ent[0]
        tp = type(obj)
        try:
            ref = weakref.ref(obj, lambda _r, rid=rid, tp=tp: self._released(rid, tp, _r))
        except TypeError:
            self.fallback += 1
            return rid
        self.asked += 1
        pool = self.free.get(tp)
        if pool:
            if self.policy == "fifo":
                fid = pool.pop(0)
            elif self.policy == "lifo":
                fid = pool.pop()
            else:
                fid = pool.pop(self._rand(len(pool)))
            self.recycled += 1
        else:
            fid = self.next
            self.next += 1
        self.live[rid] = (fid, ref)
        return fid

    def _released(self, rid: int, tp: type, ref) -> None:
        ent = self.live.get(rid)
        if ent is not None and ent[1] is ref:
            del self.live[rid]
            if self.active:
                self.free.setdefault(tp, []).append(ent[0])

    def __enter__(self):
        self._gc = gc.isenabled()
        gc.collect()
        gc.disable()
        self.active = True
        builtins.id = self.id
        return self

    def __exit__(self, *exc):
        builtins.id = _real_id
        self.active = False
        self.live.clear()
        if self._gc:
            gc.enable()
        return False
