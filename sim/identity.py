"""
Object identity behind a seam.

CPython may hand the ``id()`` of a released object to the next object it creates; *whether* it
does depends on the state of the allocator, which no seed controls.  Code that keeps state keyed by
``id()`` (or that otherwise assumes identities are never recycled) therefore misbehaves only on
some heaps, and a failing run does not replay.

``IdentitySeam`` replaces ``builtins.id`` for the duration of a ``with`` block by a deterministic
model of the same contract:

* two objects alive at the same time never share an identity, an object keeps its identity for
  life (both as in CPython);
* once an object is released its identity goes to a free list *of its type* (the allocator's size
  classes) and is handed to the next object of that type that is asked for its identity.  The
  order in which the free list is drained is a recorded policy: ``fifo``, ``lifo`` or seeded
  ``random``;
* objects that cannot be weakly referenced (classes whose ``__slots__`` leave out ``__weakref__``,
  e.g. ``yaw.Catalog``) are pinned by the seam once they have been asked for their identity and are
  released at the next ``collect()`` at which nothing but the seam refers to them: their death is
  deferred to a point the check decides, never advanced.  Built-in immortals and containers
  (``int``, ``str``, ``tuple``, ...) keep their real address (large numbers; recycled identities are
  small, so the two ranges never meet).

The cyclic garbage collector is switched off inside the block, so that the instant at which cycles
are released does not depend on the allocation counters inherited from the parent process.
"""

from __future__ import annotations

import builtins
import gc
import sys
import weakref

_real_id = builtins.id


class IdentitySeam:
    def __init__(self, policy: str = "fifo", seed: int = 0):
        assert policy in ("fifo", "lifo", "random")
        self.policy = policy
        self.state = (seed * 0x9E3779B97F4A7C15 + 0x1234567) & 0xFFFFFFFFFFFFFFFF
        self.live: dict[int, tuple[int, weakref.ref]] = {}
        self.pinned: dict[int, tuple[int, object]] = {}
        self.free: dict[type, list[int]] = {}
        self.next = 1 << 8
        self.asked = 0
        self.recycled = 0
        self.fallback = 0
        self.active = False

    def _rand(self, n: int) -> int:
        # splitmix64 step
        self.state = (self.state + 0x9E3779B97F4A7C15) & 0xFFFFFFFFFFFFFFFF
        z = self.state
        z = ((z ^ (z >> 30)) * 0xBF58476D1CE4E5B9) & 0xFFFFFFFFFFFFFFFF
        z = ((z ^ (z >> 27)) * 0x94D049BB133111EB) & 0xFFFFFFFFFFFFFFFF
        return ((z ^ (z >> 31)) % n) if n else 0

    def id(self, obj) -> int:
        rid = _real_id(obj)
        if not self.active:
            return rid
        ent = self.live.get(rid)
        if ent is not None and ent[1]() is obj:
            return ent[0]
        tp = type(obj)
        try:
            ref = weakref.ref(obj, lambda _r, rid=rid, tp=tp: self._released(rid, tp, _r))
        except TypeError:
            if tp.__module__ == "builtins" or rid in self.pinned:
                if rid in self.pinned:
                    return self.pinned[rid][0]
                self.fallback += 1
                return rid
            ref = None
        self.asked += 1
        pool = self.free.get(tp)
        if pool:
            if self.policy == "fifo":
                fid = pool.pop(0)
            elif self.policy == "lifo":
                fid = pool.pop()
            else:
                fid = pool.pop(self._rand(len(pool)))
            self.recycled += 1
        else:
            fid = self.next
            self.next += 1
        if ref is None:
            self.pinned[rid] = (fid, obj)
        else:
            self.live[rid] = (fid, ref)
        return fid

    def _released(self, rid: int, tp: type, ref) -> None:
        ent = self.live.get(rid)
        if ent is not None and ent[1] is ref:
            del self.live[rid]
            if self.active:
                self.free.setdefault(tp, []).append(ent[0])

    def collect(self) -> None:
        """Release cyclic garbage now (the collector is off inside the block, so that *when* cycles
        die is a decision of the check, not of inherited allocation counters).  Only the two young
        generations are scanned: everything that existed when the block was entered sits in the
        oldest one after the full collection done there."""
        gc.collect(1)
        again = True
        while again:
            again = False
            for rid in list(self.pinned):
                if sys.getrefcount(self.pinned[rid][1]) <= self._alone:
                    fid, obj = self.pinned.pop(rid)
                    self.free.setdefault(type(obj), []).append(fid)
                    del obj  # dies here, possibly releasing other pinned objects
                    again = True

    def _calibrate(self) -> int:
        probe = {0: (0, object())}
        return sys.getrefcount(probe[0][1])

    def __enter__(self):
        self._alone = self._calibrate()
        self._gc = gc.isenabled()
        gc.collect()
        gc.disable()
        self.active = True
        builtins.id = self.id
        return self

    def __exit__(self, *exc):
        builtins.id = _real_id
        self.active = False
        self.live.clear()
        self.pinned.clear()
        if self._gc:
            gc.enable()
        return False
