"""
Catalog-creation scenarios under the simulated multiprocessing world
(engine E1), shared by C02 (records), C09 (fail-stop), C12 (metadata),
C16 (random source) and C18 (I/O trace).

``run_creation(case)`` materialises the input source and the prior disk state,
runs ``Catalog.from_dataframe / from_file / from_random`` (or ``write_patches`` +
``Catalog(dir)`` when a writer buffer size is given) as simulated process
``main`` and returns an *outcome* record; the property modules evaluate their
oracles on it.
"""

from __future__ import annotations

import errno as errno_mod
import hashlib
import os
import shutil

import numpy as np

from sim import oracles as orc
from sim import workloads as wl
from sim.core import Sim, Verdict, current_sim, current_task

ERRNOS = dict(
    ENOSPC=errno_mod.ENOSPC, EACCES=errno_mod.EACCES, EIO=errno_mod.EIO, EROFS=errno_mod.EROFS
)


# ------------------------------------------------------------------ helpers
def tree_hash(path: str) -> str | None:
    """Content hash of a file or directory tree (None if it does not exist)."""
    if not os.path.lexists(path):
        return None
    h = hashlib.sha256()
    if os.path.isfile(path):
        with open(path, "rb") as f:
            h.update(b"F" + f.read())
        return h.hexdigest()
    for dirpath, dirnames, filenames in os.walk(path):
        dirnames.sort()
        rel = os.path.relpath(dirpath, path)
        h.update(b"D" + rel.encode())
        for fn in sorted(filenames):
            h.update(b"F" + fn.encode())
            with open(os.path.join(dirpath, fn), "rb") as f:
                blob = f.read()
            h.update(hashlib.sha256(_canonical_trees(blob) if fn == "trees.pkl" else blob).digest())
    return h.hexdigest()


def _canonical_trees(blob: bytes) -> bytes:
    """The pickle of a scipy cKDTree contains its node array with the padding bytes of the C
    struct, which are uninitialised memory: equal trees do not pickle to equal bytes.  For the
    state digest a ``trees.pkl`` is therefore described by what it means (per tree: number of
    records, sum of weights, the point array, the weights) or, when it cannot be unpickled (a
    truncated file), by its length alone."""
    import pickle

    try:
        obj = pickle.loads(blob)
        trees = obj if isinstance(obj, tuple) else (obj,)
        out = hashlib.sha256(b"tuple" if isinstance(obj, tuple) else b"single")
        for t in trees:
            out.update(repr((int(t.num_records), float(t.sum_weights))).encode())
            out.update(np.ascontiguousarray(t.tree.data).tobytes())
            if t.weights is not None:
                out.update(np.ascontiguousarray(t.weights).tobytes())
        return out.digest()
    except Exception:  # noqa: BLE001
        return b"unreadable:%d" % len(blob)


def case_records(case: dict):
    """(records, patch_ids | None, centers_rad | None) of a creation case, before
    any fault is applied."""
    d = case["data"]
    rec = wl.gen_records(
        d["data_seed"],
        d["n"],
        region=d.get("region", "box"),
        has_w=d.get("has_w", True),
        has_z=d.get("has_z", True),
        w_dtype=d.get("w_dtype", "f8"),
        z_dtype=d.get("z_dtype", "f8"),
        coord_dtype=d.get("coord_dtype", "f8") if d.get("degrees", True) else "f8",
    )
    if not d.get("degrees", True):
        cdt = d.get("coord_dtype", "f8")
        cdt = cdt if cdt.startswith("f") else "f8"
        rec["ra"] = np.deg2rad(rec["ra"]).astype(cdt)
        rec["dec"] = np.deg2rad(rec["dec"]).astype(cdt)
    p = case["patch"]
    centers = None
    pids = None
    if case.get("source") == "random" and p["mode"] == "apply":
        # centres must be non-empty with respect to what the generator yields
        rr, _ = expected_random_records(case)
        deg = dict(ra=np.rad2deg(rr["ra"]), dec=np.rad2deg(rr["dec"]))
        centers = wl.gen_centers(p.get("center_seed", d["data_seed"] + 5), p["k"], d.get("region", "box"))
        centers = wl.ensure_nonempty_centers(deg, centers)
    elif p["mode"] in ("apply", "divide"):
        centers = wl.gen_centers(p.get("center_seed", d["data_seed"] + 5), p["k"], d.get("region", "box"))
        deg = dict(rec)
        if not d.get("degrees", True):
            deg["ra"], deg["dec"] = np.rad2deg(rec["ra"].astype("f8")), np.rad2deg(rec["dec"].astype("f8"))
        centers = wl.ensure_nonempty_centers(deg, centers)
        if d.get("boundary") and p["mode"] == "apply" and d.get("degrees", True) and d.get("coord_dtype", "f8") == "f8" and len(centers) > 1:
            _put_records_near_boundaries(rec, centers, d["data_seed"])
        if p["mode"] == "divide":
            radec = np.deg2rad(np.column_stack([deg["ra"], deg["dec"]]))
            ids, _ = wl.nearest_center(radec, centers)
            if p.get("pid_scramble"):
                # ids need not follow geometry at all
                rng = np.random.default_rng([d["data_seed"] & 0xFFFFFFFF, 0x51D])
                ids = rng.permutation(ids)
            pids = ids.astype(p.get("pid_dtype", "i8"))
            centers = None
    return rec, pids, centers


def _put_records_near_boundaries(rec: dict, centers: np.ndarray, seed: int) -> None:
    """Move about a tenth of the records to 1e-9 .. 1e-7 rad from the bisector of two centres: far
    from a tie in double precision (the model's tie tolerance is 1e-12 relative), within rounding
    noise of anything narrower.  Left undone if a centre would end up without records."""
    rng = np.random.default_rng([seed & 0xFFFFFFFF, 0xB0D])
    n = len(rec["ra"])
    m = max(2, n // 10)
    idx = rng.choice(n, size=min(m, n), replace=False)
    c3 = wl.to_3d(centers)
    ra, dec = np.array(rec["ra"], dtype="f8"), np.array(rec["dec"], dtype="f8")
    for i in idx:
        a, b = rng.choice(len(centers), size=2, replace=False)
        mid = c3[a] + c3[b]
        mid /= np.linalg.norm(mid)
        t = c3[b] - c3[a]
        t /= np.linalg.norm(t)
        # also slide along the bisector, so that the points do not pile up
        u = np.cross(mid, t)
        q = mid + rng.uniform(-0.02, 0.02) * u + rng.choice([-1.0, 1.0]) * 10.0 ** rng.uniform(-9.0, -7.0) * t
        q /= np.linalg.norm(q)
        ra[i] = np.rad2deg(np.arctan2(q[1], q[0]) % (2.0 * np.pi))
        dec[i] = np.rad2deg(np.arcsin(np.clip(q[2], -1.0, 1.0)))
    ids, _ = wl.nearest_center(np.deg2rad(np.column_stack([ra, dec])), centers)
    if (np.bincount(ids, minlength=len(centers)) > 0).all():
        rec["ra"], rec["dec"] = ra, dec


class _Tracer:
    """Context manager that logs what the HDF5 / Parquet readers request from
    their file (who, column, start, stop)."""

    def __init__(self, trace: list) -> None:
        self.trace = trace
        self.saved = []

    def __enter__(self):
        import h5py
        from pyarrow import parquet

        trace = self.trace
        orig_getitem = h5py.Dataset.__getitem__
        orig_rrg = parquet.ParquetFile.read_row_group

        def getitem(ds, args, *a, **k):
            t = current_task()
            if isinstance(args, slice) and current_sim() is not None:
                trace.append((t.name if t else "-", "h5:" + ds.name, args.start, args.stop))
            return orig_getitem(ds, args, *a, **k)

        def read_row_group(pf, i, *a, **k):
            t = current_task()
            if current_sim() is not None:
                trace.append((t.name if t else "-", "pq:group", int(i), None))
            return orig_rrg(pf, i, *a, **k)

        h5py.Dataset.__getitem__ = getitem
        parquet.ParquetFile.read_row_group = read_row_group
        self.saved = [(h5py.Dataset, "__getitem__", orig_getitem), (parquet.ParquetFile, "read_row_group", orig_rrg)]
        return self

    def __exit__(self, *exc):
        for obj, name, val in self.saved:
            setattr(obj, name, val)


def _apply_fault_to_data(case, rec, pids):
    """Returns (rec, pids, extra) with the data-level fault applied."""
    f = case.get("fault") or {}
    kind = f.get("kind")
    n = len(rec["ra"])
    cs = case.get("chunksize") or n
    nchunks = max(1, -(-n // cs))
    pos = f.get("pos", "first")
    chunk = {"first": 0, "middle": nchunks // 2, "last": nchunks - 1}[pos]
    lo = chunk * cs
    hi = min(n, lo + cs)
    idx = lo + (f.get("offset", 0) % max(1, hi - lo)) if n else 0
    if kind == "nonfinite":
        col = f["column"]
        if col == "pid":
            # a patch-index column of floating-point type with one non-finite entry
            if pids is not None and n:
                pids = pids.astype("f8").copy()
                pids[idx] = dict(nan=np.nan, inf=np.inf, ninf=-np.inf)[f["value"]]
        elif col in rec and n:
            rec = dict(rec)
            arr = rec[col].astype("f8").copy()
            arr[idx] = dict(nan=np.nan, inf=np.inf, ninf=-np.inf)[f["value"]]
            rec[col] = arr
    elif kind == "pid_range" and pids is not None and n:
        pids = pids.astype("i8").copy()
        pids[idx] = int(f["value"])
    return rec, pids


def _make_prior(case, target: str, root: str) -> None:
    import yaw
    from sim.scenes import sequential_mode

    prior = case.get("prior", "none")
    if prior == "none":
        return
    if prior in ("catalog", "catalog_trees", "catalog_reopened"):
        old = wl.gen_records(
            case["data"]["data_seed"] + 991, 23, region="box", has_w=True, has_z=True,
            zedges=[0.1, 0.5, 1.0], zpad=-0.01, edge_frac=0.0,
        )
        centers = wl.ensure_nonempty_centers(old, wl.gen_centers(3, 3, "box"))
        with sequential_mode():
            cat = yaw.Catalog.from_dataframe(
                target, wl.make_dataframe(old), patch_centers=yaw.AngularCoordinates(centers),
                max_workers=1, **wl.column_kwargs(old),
            )
            if prior == "catalog_trees":
                cat.build_trees([0.1, 1.0])
            if prior == "catalog_reopened":
                # the session has already used the old cache: restored it and read its data
                old_cat = yaw.Catalog(target, max_workers=1)
                for patch in old_cat.values():
                    patch.load_data()
                old_cat.get_centers()
    elif prior == "junkdir":
        os.makedirs(os.path.join(target, "sub"))
        with open(os.path.join(target, "notes.txt"), "w") as f:
            f.write("unrelated user data\n")
        with open(os.path.join(target, "sub", "data.bin"), "wb") as f:
            f.write(b"\x00" * 17)
    elif prior == "junkdir_patchlike":
        # unrelated user directory whose entries happen to be called patch_*
        os.makedirs(os.path.join(target, "patch_old"))
        with open(os.path.join(target, "patch_notes.txt"), "w") as f:
            f.write("notes about a patch, not a catalog cache\n")
        with open(os.path.join(target, "patch_old", "fix.diff"), "w") as f:
            f.write("--- a\n+++ b\n")
    elif prior == "emptydir":
        os.makedirs(target)
    elif prior == "file":
        with open(target, "w") as f:
            f.write("a regular file\n")
    elif prior == "parentfile":
        parent = os.path.dirname(target)
        with open(parent, "w") as f:
            f.write("a regular file where the parent directory should be\n")
    elif prior == "noparent":
        pass
    else:
        raise ValueError(prior)


def old_catalog_records():
    """not used directly; the prior catalog is identified by its tree hash"""


# ------------------------------------------------------------------ the run
def run_creation(case: dict, root: str, *, sim_kwargs: dict | None = None, trace_hook=None) -> dict:
    """Execute one creation case under ``root`` (a fresh scratch directory)."""
    import yaw
    import yaw.catalog.catalog as ycat
    import yaw.utils.logging as ylog
    from sim import fakemp

    rec, pids, centers = case_records(case)
    if p_early := case["patch"].get("extra_pid_column"):
        # a patch-id column supplied *in addition to* given centres: documented to be ignored
        rng = np.random.default_rng([case["data"]["data_seed"] & 0xFFFFFFFF, 0xE7A])
        pids = rng.integers(0, max(1, len(centers) if centers is not None else 1), len(rec["ra"])).astype("i8")
    rec_f, pids_f = _apply_fault_to_data(case, rec, pids)
    fault = case.get("fault") or {}
    kind = fault.get("kind")
    p = case["patch"]
    d = case["data"]
    src_kind = case.get("source", "df")
    n = d["n"]

    workdir = os.path.join(root, "work")
    os.makedirs(workdir)
    prior = case.get("prior", "none")
    if prior in ("noparent", "parentfile"):
        target = os.path.join(workdir, "missing", "cat")
    else:
        target = os.path.join(workdir, "cat")
    _make_prior(case, target, root)
    # "before" snapshot of the path that must stay untouched is the *topmost
    # pre-existing thing* the creation could damage
    watch = target if prior not in ("noparent", "parentfile") else os.path.join(workdir, "missing")
    hash_before = tree_hash(watch)

    # ---- centres
    coords = None
    centers_given = None
    if p["mode"] == "apply":
        centers_given = centers
        if kind == "empty_center":
            far = _far_center(rec, d)
            j = {"first": 0, "middle": len(centers) // 2, "last": len(centers)}[fault.get("pos", "last")]
            centers_given = np.insert(centers, j, far, axis=0)
        coords = yaw.AngularCoordinates(centers_given)
        if p.get("centers_from_catalog"):
            # the documented alternative: another catalog defines the patch centres
            from sim.scenes import sequential_mode

            helper_rec = dict(
                ra=np.rad2deg(np.repeat(centers_given[:, 0], 2)), dec=np.rad2deg(np.repeat(centers_given[:, 1], 2))
            )
            with sequential_mode():
                coords = yaw.Catalog.from_dataframe(
                    os.path.join(root, "centre_catalog"), wl.make_dataframe(helper_rec), ra_name="ra", dec_name="dec",
                    patch_centers=yaw.AngularCoordinates(centers_given.copy()), max_workers=1,
                )

    # ---- source
    trace: list = []
    kw = wl.column_kwargs(rec_f, patch_name=(p["mode"] == "divide" or bool(p.get("extra_pid_column"))))
    if kind == "missing_column":
        kw[fault.get("which", "dec_name")] = "no_such_column"
    if not d.get("degrees", True):
        kw["degrees"] = False
    gen_args = None
    if src_kind in ("df", "traced"):
        df = wl.make_dataframe(rec_f, pids_f)
        source = wl.TracedFrame(df, trace, fail_at=int(fault["k"]) if kind == "source_memerror" else None) if src_kind == "traced" else df
    elif src_kind in ("fits", "hdf5", "parquet"):
        source = os.path.join(root, "input" + wl.SOURCE_EXT[src_kind])
        fits_hdu = int(case.get("fits_hdu") or 1) if src_kind == "fits" else 1
        wl.write_source(src_kind, source, rec_f, pids_f, pq_seed=d["data_seed"], pq_rowgroup=case.get("pq_rowgroup"), fits_hdu=fits_hdu)
        if fits_hdu > 1:
            kw["hdu"] = fits_hdu  # rarely supplied reader option: the table is not in the first extension
        if kind == "len_mismatch" and src_kind == "hdf5":
            import h5py

            with h5py.File(source, "a") as f:
                col = fault.get("column", "dec")
                if col in f:
                    data = f[col][:]
                    del f[col]
                    m = max(0, len(data) + int(fault.get("delta", -1)))
                    f.create_dataset(col, data=np.resize(data, m) if m else data[:0])
    elif src_kind == "random":
        ra0, ra1, de0, de1 = wl.REGIONS[d.get("region", "box")]
        gen_args = dict(ra_min=ra0, ra_max=ra1 if ra1 <= 360 else ra1, dec_min=de0, dec_max=de1, seed=d["data_seed"] % 100000)
        attr = wl.gen_records(d["data_seed"] + 3, 37, has_w=True, has_z=True)
        if d.get("has_w", True):
            gen_args["weights"] = attr["w"]
        if d.get("has_z", True):
            gen_args["redshifts"] = attr["z"]
        source = None
    else:
        raise ValueError(src_kind)

    patch_kw = {}
    if kind != "no_patch_method":
        if p["mode"] == "apply":
            patch_kw["patch_centers"] = coords
        elif p["mode"] == "divide":
            pass  # patch_name is in kw
        else:
            patch_kw["patch_num"] = p["k"]
            patch_kw["probe_size"] = p.get("probe_size", min(n, max(10 * p["k"], n // 2)))
    elif p["mode"] == "divide":
        kw.pop("patch_name", None)

    workers = case.get("workers", 1)
    mw = None if case.get("use_none") else workers
    cores = workers if mw is None else workers + case.get("cores_extra", 0)
    buffersize = case.get("buffersize")
    overwrite = case.get("overwrite", False)
    progress = case.get("progress", False)
    chunksize = case.get("chunksize")

    def main():
        common = dict(overwrite=overwrite, progress=progress, max_workers=mw, chunksize=chunksize)
        if (buffersize is None and not case.get("preview_chunks")) or src_kind == "random" or p["mode"] == "create":
            if src_kind in ("df", "traced"):
                cat = yaw.Catalog.from_dataframe(target, source, **kw, **patch_kw, **common)
            elif src_kind == "random":
                gen = yaw.randoms.BoxRandoms(**gen_args)
                pk = dict(patch_kw)
                cat = yaw.Catalog.from_random(target, gen, n, **pk, **common)
            else:
                cat = yaw.Catalog.from_file(target, source, **kw, **patch_kw, **common)
        else:
            from yaw.catalog.readers import DataFrameReader, new_filereader

            rkw = dict(kw, chunksize=chunksize)
            if src_kind in ("df", "traced"):
                reader = DataFrameReader(source, **rkw)
            else:
                reader = new_filereader(source, **rkw)
            ycat.PatchMode.determine(patch_kw.get("patch_centers"), kw.get("patch_name"), None)
            if case.get("preview_chunks"):
                # the caller looks at the first chunk(s) and abandons that pass
                it = iter(reader)
                for _ in range(int(case["preview_chunks"])):
                    try:
                        next(it)
                    except StopIteration:
                        break
            ycat.write_patches(
                target, reader, patch_kw.get("patch_centers"), overwrite=overwrite,
                progress=progress, max_workers=mw, buffersize=-1 if buffersize is None else buffersize,
            )
            cat = yaw.Catalog(target, max_workers=mw)
        return cat

    sk = dict(sim_kwargs or {})
    sim = Sim(
        case.get("sched_seed", 0),
        choices=case.get("schedule"),
        policy=case.get("policy", "prng"),
        fs_root=workdir,
        cores=max(1, cores),
        step_cap=case.get("step_cap", 60_000),
        **sk,
    )
    sim.scrub = [os.path.realpath(root), root]
    if kind == "pool_memerror":
        sim.faults["pool_task_memerror"] = int(fault.get("k", 0))
    if kind == "writer_killed":
        sim.faults["kill_task"] = ("proc", int(fault.get("k", 0)))
    if kind == "stalled_peer":
        sim.faults["timeouts_fire"] = int(fault.get("k", 0))
    if kind == "fs_errno":
        sim.faults["fs_errno"] = (int(fault["k"]), ERRNOS[fault["errno"]], fault["errno"], bool(fault.get("sticky")))

    sink = open(os.devnull, "w")
    saved_stream = ylog.Indicator.__init__.__kwdefaults__["stream"]
    ylog.Indicator.__init__.__kwdefaults__["stream"] = sink
    saved_tc = ycat.treecorr
    seeded_tc = ycat.treecorr = wl.SeededTreecorr(d["data_seed"] % 9973)
    try:
        import contextlib

        extra = trace_hook(trace) if trace_hook is not None else contextlib.nullcontext()
        with fakemp.patched(sim), _Tracer(trace), extra:
            verdict = sim.run(main)
    finally:
        ycat.treecorr = saved_tc
        ylog.Indicator.__init__.__kwdefaults__["stream"] = saved_stream
        sink.close()

    out = dict(
        verdict=verdict,
        steps=sim.steps,
        probes=dict(sim.probes),
        digest=sim.digest(),
        nontrivial=sim.multi_choice_steps > 0,
        head=sim.head(25),
        tail=sim.tail(30),
        choices=list(sim.choices),
        blocked=sim.blocked_report,
        trace=trace,
        target=target,
        watch=watch,
        hash_before=hash_before,
        records=rec,
        records_faulted=rec_f,
        patch_ids=pids,
        centers=centers,
        centers_given=None if centers_given is None else np.array(centers_given, copy=True),
        coords_object=coords if not p.get("centers_from_catalog") else None,
        gen_args=gen_args,
        races=sim.file_races(),
        fault_fired=dict(sim.faults.get("_fired", {}), **({"source_memerror": source.failed} if isinstance(source, wl.TracedFrame) and source.failed else {})),
        degenerate_centres=seeded_tc.degenerate,
        process_errors=[type(e).__name__ for e in sim.objects.get("process_errors", [])],
        main_done=sim.main.done,
        orphans=[t.name for t in sim.tasks if t is not sim.main and t.state not in ("done", "killed")],
        queues_left=sum(len(q.items) for m in sim.objects.get("managers", []) for q in m.queues),
    )
    if sim.main.done and sim.main.exc is None and verdict != Verdict.STEP_CAP:
        out["outcome"] = "returned"
        out["catalog"] = sim.main.result
    elif sim.main.done:
        out["outcome"] = "raised"
        out["exc_type"] = type(sim.main.exc).__name__
        out["exc_msg"] = str(sim.main.exc)[:300]
        out["exc_tb"] = sim.main.tb[-1800:]
    else:
        out["outcome"] = "hang"
    out["sim"] = sim
    return out


def finish(outcome: dict) -> int:
    sim = outcome.pop("sim", None)
    return sim.cleanup() if sim is not None else 0


def _far_center(rec, d) -> np.ndarray:
    """A centre on the other side of the sphere: attracts no record."""
    ra = np.asarray(rec["ra"], dtype="f8")
    dec = np.asarray(rec["dec"], dtype="f8")
    if d.get("degrees", True):
        ra, dec = np.deg2rad(ra), np.deg2rad(dec)
    p = wl.to_3d(np.column_stack([ra, dec])).mean(axis=0)
    q = -p / max(np.linalg.norm(p), 1e-9)
    return np.array([np.arctan2(q[1], q[0]) % (2 * np.pi), np.arcsin(np.clip(q[2], -1, 1))])


def expected_random_records(case: dict) -> dict:
    """The chunk sequence a *fresh* generator yields for (size, chunksize): the
    definition of 'the input' for the random source."""
    import yaw

    d = case["data"]
    ra0, ra1, de0, de1 = wl.REGIONS[d.get("region", "box")]
    gen_args = dict(ra_min=ra0, ra_max=ra1, dec_min=de0, dec_max=de1, seed=d["data_seed"] % 100000)
    attr = wl.gen_records(d["data_seed"] + 3, 37, has_w=True, has_z=True)
    if d.get("has_w", True):
        gen_args["weights"] = attr["w"]
    if d.get("has_z", True):
        gen_args["redshifts"] = attr["z"]
    gen = yaw.randoms.BoxRandoms(**gen_args)
    n = d["n"]
    cs = case.get("chunksize") or 16_777_216
    chunks = []
    left = n
    gen.reseed()
    while left > 0:
        m = min(cs, left)
        chunks.append(gen(m))
        left -= m
    data = np.concatenate(chunks) if chunks else gen(0)
    rec = dict(ra=data["ra"], dec=data["dec"])
    if "weights" in data.dtype.fields:
        rec["w"] = data["weights"]
    if "redshifts" in data.dtype.fields:
        rec["z"] = data["redshifts"]
    return rec, attr
