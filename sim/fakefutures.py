"""
In-process model of ``concurrent.futures`` executors on top of the simulator.

The library under test parallelises with ``multiprocessing.Pool``; a refactoring to
``concurrent.futures.ProcessPoolExecutor`` is a realistic change, and without a model of it the
changed library would start *real* worker processes from inside a simulated one: nothing the
scheduler decides, nothing that replays.  ``fakemp.patched`` therefore also replaces, for the
duration of a simulation, ``ProcessPoolExecutor`` / ``ThreadPoolExecutor`` / ``wait`` /
``as_completed`` in ``concurrent.futures`` and in every ``yaw`` module namespace that imported them.

Semantics kept from the real thing:

* ``submit`` pickles the call (process executor), a worker process unpickles and runs it, the result
  travels back pickled; an exception of the task is re-raised by ``Future.result()``;
* workers are simulated processes (own scheduler tasks, ``kind="poolworker"``): which worker takes
  which task and when a finished result becomes visible are scheduler choices;
* ``wait(fs, return_when=FIRST_COMPLETED)`` returns *every* future that is done at that moment,
  ``as_completed`` yields in completion order;
* a worker that dies (``kill_task`` fault) breaks the pool: pending futures raise
  ``BrokenProcessPool``;
* ``shutdown(wait=True)`` (also at ``__exit__``) lets queued tasks finish, ``cancel_futures`` drops
  the ones not started.

Timeouts fire only through the scheduler fault ``timeouts_fire`` (``Sim.timed_wait``): a peer can
always be slower than any finite timeout, fault-free runs never are.
"""

from __future__ import annotations

import pickle
from collections import deque, namedtuple
from concurrent.futures import ALL_COMPLETED, FIRST_COMPLETED, FIRST_EXCEPTION, CancelledError
from concurrent.futures.process import BrokenProcessPool

from sim.core import Sim, current_task

DoneAndNotDoneFutures = namedtuple("DoneAndNotDoneFutures", "done not_done")


class FakeFuture:
    def __init__(self, ex: "FakeExecutor", fid: int) -> None:
        self._ex = ex
        self.fid = fid
        self._state = "pending"  # pending | running | finished | cancelled
        self._result = None
        self._exc: BaseException | None = None
        self._callbacks: list = []
        self._seq = -1  # completion sequence number
        self._clock = None

    # sets and dicts of futures iterate in an order that depends on their hashes: the default
    # hash is the address, which no seed controls
    def __hash__(self) -> int:
        return self.fid * 1_000_003 + self._ex.pid

    def __eq__(self, other) -> bool:
        return self is other

    # -- state
    def cancel(self) -> bool:
        if self._state in ("running", "finished"):
            return False
        if self._state == "pending":
            self._state = "cancelled"
            self._ex._drop(self)
            self._finish_seq()
            self._run_callbacks()
        return True

    def cancelled(self) -> bool:
        return self._state == "cancelled"

    def running(self) -> bool:
        return self._state == "running"

    def done(self) -> bool:
        self._ex._check_broken()
        return self._state in ("finished", "cancelled")

    def _finish_seq(self) -> None:
        self._seq = self._ex.sim.next_id("future.done")

    def _set(self, ok: bool, value, clock) -> None:
        if self._state in ("finished", "cancelled"):
            return
        self._state = "finished"
        self._clock = clock
        if ok:
            self._result = value
        else:
            self._exc = value
        self._finish_seq()
        self._run_callbacks()

    def _run_callbacks(self) -> None:
        cbs, self._callbacks = self._callbacks, []
        for cb in cbs:
            try:
                cb(self)
            except Exception:  # noqa: BLE001 - as the real thing: logged and ignored
                pass

    def add_done_callback(self, fn) -> None:
        if self._state in ("finished", "cancelled"):
            fn(self)
        else:
            self._callbacks.append(fn)

    # -- results
    def _wait(self, timeout) -> None:
        sim = self._ex.sim
        if not sim.timed_wait(("future.result", self._ex.pid, self.fid), self.done, timeout):
            raise TimeoutError()
        sim.hb_recv(self._clock)

    def result(self, timeout=None):
        self._wait(timeout)
        if self._state == "cancelled":
            raise CancelledError()
        if self._exc is not None:
            raise self._exc
        return self._result

    def exception(self, timeout=None):
        self._wait(timeout)
        if self._state == "cancelled":
            raise CancelledError()
        return self._exc


class FakeExecutor:
    def __init__(self, sim: Sim, max_workers=None, mp_context=None, initializer=None, initargs=(), *, processes: bool = True, **_k) -> None:
        self.sim = sim
        self.pid = sim.next_id("pool")
        n = int(max_workers) if max_workers is not None else sim.cores
        if n < 1:
            raise ValueError("max_workers must be greater than 0")
        self.n = n
        self.processes = processes
        self.state = "run"  # run | shutdown
        self.broken = False
        self.taskq: deque = deque()
        self.futures: list[FakeFuture] = []
        self.init = (initializer, initargs)
        self.workers = [sim.spawn(f"pool{self.pid}.w{i}", self._worker_loop, i, kind="poolworker") for i in range(n)]
        sim.probe("executor_created")

    def __enter__(self):
        return self

    def __exit__(self, *exc) -> bool:
        self.shutdown(wait=True)
        return False

    def _drop(self, fut: FakeFuture) -> None:
        self.taskq = deque(item for item in self.taskq if item[0] is not fut)

    def _check_broken(self) -> None:
        if self.broken or not self.processes:
            return
        if any(w.state == "killed" for w in self.workers):
            self.broken = True
            self.taskq.clear()
            for f in self.futures:
                if f._state in ("pending", "running"):
                    f._set(False, BrokenProcessPool("A process in the process pool was terminated abruptly while the future was running or pending."), None)

    def _worker_loop(self, i: int) -> None:
        sim = self.sim
        me = current_task()
        initializer, initargs = self.init
        if initializer is not None:
            initializer(*initargs)
        while True:
            sim.sched_point(("pool.take", self.pid, i), cond=lambda: bool(self.taskq) or self.state != "run" or self.broken)
            if self.broken:
                return
            if not self.taskq:
                if self.state != "run":
                    return
                continue
            fut, payload, clock = self.taskq.popleft()
            if fut._state != "pending":
                continue
            fut._state = "running"
            sim.hb_recv(clock)
            me.busy_user = True
            try:
                if self.processes:
                    fn, args, kwargs = pickle.loads(payload)
                else:
                    fn, args, kwargs = payload
                out = fn(*args, **kwargs)
                ok, blob = True, (pickle.dumps(out) if self.processes else out)
            except Exception as err:  # noqa: BLE001 - reported to the parent
                if self.processes:
                    try:
                        err = pickle.loads(pickle.dumps(err))
                    except Exception as err2:  # noqa: BLE001
                        err = RuntimeError(f"{err!r} / {err2!r}")
                ok, blob = False, err
            sim.sched_point(("pool.done", self.pid, i, fut.fid))
            me.busy_user = False
            value = pickle.loads(blob) if (ok and self.processes) else blob
            fut._set(ok, value, sim.hb_send())

    def submit(self, fn, /, *args, **kwargs) -> FakeFuture:
        self._check_broken()
        if self.broken:
            raise BrokenProcessPool("A child process terminated abruptly, the process pool is not usable anymore")
        if self.state != "run":
            raise RuntimeError("cannot schedule new futures after shutdown")
        fut = FakeFuture(self, self.sim.next_id("future"))
        self.futures.append(fut)
        if self.processes:
            try:
                payload = pickle.dumps((fn, args, kwargs))
            except Exception as err:  # noqa: BLE001 - the feeder thread fails: the future fails
                fut._set(False, err, None)
                return fut
        else:
            payload = (fn, args, kwargs)
        self.taskq.append((fut, payload, self.sim.hb_send()))
        self.sim.note("submit", self.pid, fut.fid)
        return fut

    def map(self, fn, *iterables, timeout=None, chunksize=1):
        futs = [self.submit(fn, *args) for args in zip(*iterables)]

        def gen():
            try:
                for f in futs:
                    yield f.result()
            finally:
                for f in futs:
                    f.cancel()

        return gen()

    def shutdown(self, wait=True, *, cancel_futures=False) -> None:
        if cancel_futures:
            for f in list(self.futures):
                if f._state == "pending":
                    f.cancel()
        self.state = "shutdown"
        if wait:
            self.sim.sched_point(
                ("pool.join", self.pid),
                cond=lambda: all(w.state in ("done", "killed") for w in self.workers) or (self._check_broken() or self.broken),
            )


def _as_list(fs) -> list[FakeFuture]:
    return list(dict.fromkeys(fs))


def wait(fs, timeout=None, return_when=ALL_COMPLETED):
    fs = _as_list(fs)
    if not fs:
        return DoneAndNotDoneFutures(set(), set())
    sim = fs[0]._ex.sim

    def enough() -> bool:
        done = [f for f in fs if f.done()]
        if return_when == FIRST_COMPLETED:
            return bool(done)
        if return_when == FIRST_EXCEPTION and any(f._state == "finished" and f._exc is not None for f in done):
            return True
        return len(done) == len(fs)

    sim.timed_wait(("futures.wait", return_when, len(fs)), enough, timeout)
    done = {f for f in fs if f.done()}
    for f in done:
        sim.hb_recv(f._clock)
    if len(done) > 1 and len(done) < len(fs):
        sim.probe("wait_returned_several_done")
    return DoneAndNotDoneFutures(done, set(fs) - done)


def as_completed(fs, timeout=None):
    pending = _as_list(fs)
    if not pending:
        return
    sim = pending[0]._ex.sim
    while pending:
        sim.sched_point(("futures.as_completed", len(pending)), cond=lambda: any(f.done() for f in pending))
        ready = sorted((f for f in pending if f.done()), key=lambda f: f._seq)
        pending = [f for f in pending if not f.done()]
        for f in ready:
            sim.hb_recv(f._clock)
            yield f


class Namespace:
    """The replacement objects for one simulation."""

    def __init__(self, sim: Sim) -> None:
        self.sim = sim

        def process_pool(*a, **k):
            return FakeExecutor(sim, *a, processes=True, **k)

        def thread_pool(max_workers=None, thread_name_prefix="", initializer=None, initargs=()):
            return FakeExecutor(sim, max_workers, None, initializer, initargs, processes=False)

        self.ProcessPoolExecutor = process_pool
        self.ThreadPoolExecutor = thread_pool
        self.wait = wait
        self.as_completed = as_completed


def install(patcher, sim: Sim) -> None:
    """Replace the real primitives in ``concurrent.futures`` and in every ``yaw`` module that
    holds a reference to them (``from concurrent.futures import ...``); ``patcher._set`` records
    what to restore."""
    import concurrent.futures as cf
    import sys

    ns = Namespace(sim)
    real = {name: getattr(cf, name) for name in ("ProcessPoolExecutor", "ThreadPoolExecutor", "wait", "as_completed")}
    for name in real:
        patcher._set(cf, name, getattr(ns, name))
    for modname, mod in list(sys.modules.items()):
        if mod is None or not (modname == "yaw" or modname.startswith("yaw.")):
            continue
        for attr, val in list(vars(mod).items()):
            for name, obj in real.items():
                if val is obj:
                    patcher._set(mod, attr, getattr(ns, name))
