#!/venv/bin/python
"""
Run registered checks against the seeded changes kept under /verif/seeded/.

    /venv/bin/python /verif/tools/seeded.py [ID ...] [--checks C02,C09 | --all-checks] [--tier quick]

For every selected seeded change: make sure /repo is clean, ``git apply`` the
patch, run the check(s) (default: the check of the property the change breaks),
record exit status and reported signatures in seeded/<id>/result.json, and undo
the patch (``git apply -R`` + ``git checkout -- .``).  Never commits anything.
"""

from __future__ import annotations

import argparse
import json
import os
import subprocess
import sys
import time

VERIF = os.path.dirname(os.path.dirname(os.path.abspath(__file__)))
SEEDED = os.path.join(VERIF, "seeded")
REPO = "/repo"


def sh(cmd, **kw):
    return subprocess.run(cmd, capture_output=True, text=True, **kw)


def repo_clean() -> bool:
    return sh(["git", "-C", REPO, "status", "--porcelain", "--untracked-files=no"]).stdout.strip() == ""


def main() -> int:
    ap = argparse.ArgumentParser()
    ap.add_argument("ids", nargs="*")
    ap.add_argument("--checks")
    ap.add_argument("--all-checks", action="store_true")
    ap.add_argument("--tier", default="quick")
    ap.add_argument("--seed", default="0")
    ap.add_argument("--worktree", help="apply the patches in this scratch worktree of /repo (created/removed by the tool) "
                    "and point the checks at it through PYTHONPATH instead of touching /repo")
    ap.add_argument("--result-name", default="result.json")
    args = ap.parse_args()
    ids = args.ids or sorted(d for d in os.listdir(SEEDED) if os.path.isdir(os.path.join(SEEDED, d)))
    all_props = ["C02", "C03", "C05", "C06", "C07", "C08", "C09", "C12", "C16", "C18"]
    summary = []
    import tempfile

    scratch = tempfile.mkdtemp(prefix="seeded-out-")
    os.environ["VERIF_EVIDENCE_DIR"] = os.path.join(scratch, "evidence")
    os.environ["VERIF_REPLAY_DIR"] = os.path.join(scratch, "replays")
    repo = REPO
    extra_env = {}
    if args.worktree:
        repo = args.worktree
        sh(["git", "-C", REPO, "worktree", "remove", "--force", repo])
        sh(["git", "-C", REPO, "worktree", "add", "-q", "--detach", repo, "HEAD"], check=True)
        import shutil

        shutil.copy(os.path.join(REPO, "src/yaw/_version.py"), os.path.join(repo, "src/yaw/_version.py"))
        extra_env = dict(PYTHONPATH=os.path.join(repo, "src"))
    for sid in ids:
        d = os.path.join(SEEDED, sid)
        meta = json.load(open(os.path.join(d, "meta.json")))
        patch = os.path.join(d, "patch.diff")
        if args.all_checks:
            checks = all_props
        elif args.checks:
            checks = args.checks.split(",")
        else:
            checks = meta.get("expected_checks") or [meta["property"]]
        if not args.worktree and not repo_clean():
            print("/repo has uncommitted changes; refusing to continue")
            return 2
        r = sh(["git", "-C", repo, "apply", patch])
        if r.returncode != 0:
            print(f"{sid}: patch does not apply: {r.stderr.strip()[:300]}")
            summary.append((sid, "patch does not apply"))
            continue
        results = {}
        try:
            for prop in checks:
                t0 = time.time()
                env = dict(os.environ, VERIF_SEED=args.seed, **extra_env)
                p = sh([sys.executable, os.path.join(VERIF, "check.py"), prop, "--tier", args.tier], env=env, timeout=3600)
                sigs = [ln[len("violation signature: "):] for ln in p.stdout.splitlines() if ln.startswith("violation signature: ")]
                details = [ln.strip()[len("detail: "):][:300] for ln in p.stdout.splitlines() if ln.strip().startswith("detail: ")]
                replay_ok = None
                if p.returncode == 1:
                    paths = [ln.split("replay=")[1].strip() for ln in p.stdout.splitlines() if ln.startswith("VIOLATION ")]
                    if paths:
                        rp = sh([sys.executable, os.path.join(VERIF, "check.py"), prop, "--replay", paths[0]], env=env, timeout=1800)
                        replay_ok = rp.returncode == 1 and "VIOLATION" in rp.stdout
                results[prop] = dict(
                    exit=p.returncode, replay_reproduces=replay_ok,
                    wall_s=round(time.time() - t0, 1), signatures=sigs[:6], details=details[:6],
                    harness_errors=[ln[:300] for ln in p.stdout.splitlines() if ln.startswith("HARNESS-ERROR")][:3],
                )
                print(f"{sid}: {prop} exit={p.returncode} replay_reproduces={replay_ok} {sigs[:1]}", flush=True)
        finally:
            sh(["git", "-C", repo, "apply", "-R", patch])
            sh(["git", "-C", repo, "checkout", "--", "."])
        caught = [p for p, r_ in results.items() if r_["exit"] == 1]
        out = dict(id=sid, property=meta["property"], tier=args.tier, seed=int(args.seed), results=results, caught_by=caught)
        with open(os.path.join(d, args.result_name), "w") as f:
            json.dump(out, f, indent=1, sort_keys=True)
        errs = [p for p, r_ in results.items() if r_["exit"] not in (0, 1)]
        summary.append((sid, f"caught by {caught}" if caught else (f"HARNESS-ERROR in {errs}" if errs else "MISSED")))
    print()
    for sid, s in summary:
        print(f"{sid:28s} {s}")
    if args.worktree:
        sh(["git", "-C", REPO, "worktree", "remove", "--force", repo])
    elif not repo_clean():
        print("WARNING: /repo not clean after run")
        return 2
    return 0


if __name__ == "__main__":
    sys.exit(main())
