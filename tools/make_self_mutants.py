#!/venv/bin/python
"""
(Re)generate the self-authored sensitivity mutants under /verif/seeded/self-*/.
Each is one textual replacement in a scratch worktree of /repo (removed again);
the patch is kept, nothing is ever committed to /repo.  These complement the
independently written changes produced by sub-agents (seeded/agent-*).
"""

from __future__ import annotations

import json
import os
import shutil
import subprocess
import sys
import tempfile

VERIF = os.path.dirname(os.path.dirname(os.path.abspath(__file__)))
SEEDED = os.path.join(VERIF, "seeded")

M = []


def mutant(mid, prop, path, old, new, needs, expected=None):
    M.append(dict(id=mid, property=prop, path=path, old=old, new=new, needs=needs, expected_checks=expected or [prop]))


mutant("self-c02-no-flush-on-close", "C02", "src/yaw/catalog/patch.py",
       "        self.flush()\n        self._file.close()", "        self._file.close()",
       "a writer buffer larger than the per-patch data (write_patches with buffersize > records): buffered records are dropped at close")
mutant("self-c02-parquet-single-row-remainder", "C02", "src/yaw/catalog/readers.py",
       "        if len(remainder) > 0:", "        if len(remainder) > 1:",
       "a Parquet row group that overhangs a chunk boundary by exactly one row")
mutant("self-c02-split-drops-empty-worker", "C02", "src/yaw/catalog/catalog.py",
       "pool.map(chunk_processing_task, np.array_split(chunk, max_workers))",
       "pool.map(chunk_processing_task, np.array_split(chunk, max_workers)[: len(chunk) // 2 + 1])",
       "parallel mode with more workers than half the chunk length: trailing sub-chunks are never submitted", ["C02"])
mutant("self-c03-no-diag", "C03", "src/yaw/correlation/paircounts.py",
       "        samples = sum_tiled - row_sum - col_sum + diag", "        samples = sum_tiled - row_sum - col_sum",
       "non-zero diagonal (same-patch) pair counts")
mutant("self-c03-cov-norm", "C03", "src/yaw/correlation/corrdata.py",
       "ddof=0) * (num_samples - 1)", "ddof=0) * num_samples", "any covariance (wrong jackknife prefactor)")
mutant("self-c05-sumweights-accumulate", "C05", "src/yaw/correlation/measurements.py",
       "            sum_weights1[:, id1] = pair_counts.sum_weights1", "            sum_weights1[:, id1] += pair_counts.sum_weights1",
       "a patch that appears in more than one linked pair (always, but value depends on the number of pairs, not order) -- also sequential",
       ["C05", "C03"])
mutant("self-c05-key-by-arrival", "C05", "src/yaw/catalog/catalog.py",
       "    patches = {get_id_from_patch_path(patch.cache_path): patch for patch in patch_iter}",
       "    patches = {i: patch for i, patch in enumerate(patch_iter)}",
       ">= 2 workers and a completion order different from submission order", ["C05", "C12"])
mutant("self-c06-send-not-ssend", "C06", "src/yaw/catalog/catalog.py",
       "parallel.COMM.ssend(patches, dest=worker_config.writer_rank, tag=1)",
       "parallel.COMM.send(patches, dest=worker_config.writer_rank, tag=1)",
       "world size >= 3 and the reader's EndOfQueue matched before another rank's last eager patch message")
mutant("self-c06-no-barrier", "C06", "src/yaw/catalog/catalog.py",
       "            parallel.COMM.ssend(patches, dest=worker_config.writer_rank, tag=1)\n\n        comm.Barrier()",
       "            parallel.COMM.ssend(patches, dest=worker_config.writer_rank, tag=1)\n",
       "world size >= 3: the reader rank finishes its last chunk and sends EndOfQueue while another rank still sends")
mutant("self-c06-root-waits-wrong-count", "C06", "src/yaw/utils/parallel.py",
       "            comm.send(EndOfQueue, dest=rank, tag=1)\n            active_workers -= 1",
       "            comm.send(EndOfQueue, dest=rank, tag=1)\n            active_workers -= 2",
       ">= 2 active worker ranks: the root stops collecting while results are still in flight")
mutant("self-c07-binning-equal-by-length", "C07", "src/yaw/catalog/trees.py",
       "        elif self.binning == binning:\n            return True",
       "        elif self.binning is not None and binning is not None and len(self.binning) == len(binning):\n            return True",
       "an earlier build with another binning of the same number of bins")
mutant("self-c07-eq-ignores-closed", "C07", "src/yaw/binning.py",
       "        return np.array_equal(self.edges, other.edges) and self.closed == other.closed",
       "        return np.array_equal(self.edges, other.edges)",
       "an earlier build with the same edges and the other closed side, and a redshift exactly on an edge")
mutant("self-c08-index-not-atomic", "C08", "src/yaw/catalog/catalog.py",
       "        np.sort(patch_ids).tofile(temp_path)\n        temp_path.rename(path)",
       "        np.sort(patch_ids).tofile(path)",
       "a crash between the creation of patch_ids.bin and its fclose")
mutant("self-c08-binning-before-trees", "C08", "src/yaw/catalog/trees.py",
       "            new.binning_file.unlink(missing_ok=True)\n", "",
       "rebuild with the same number of bins, crash after trees.pkl is complete and before binning is reopened")
mutant("self-c09-finalise-always", "C09", "src/yaw/catalog/catalog.py",
       "        if exc_type is None:\n            self.finalize()\n        else:",
       "        self.finalize()\n        if exc_type is not None:",
       "a fault in a later chunk (sequential mode): the partial cache is finalised")
mutant("self-c09-writer-exitcode-ignored", "C09", "src/yaw/catalog/catalog.py",
       "            if exc_type is None and self.process.exitcode != 0:", "            if False and self.process.exitcode != 0:",
       "an error inside the writer process in parallel mode (existing cache, I/O error)")
mutant("self-c12-index-unsorted", "C12", "src/yaw/catalog/catalog.py",
       "        np.sort(patch_ids).tofile(temp_path)", "        patch_ids.tofile(temp_path)",
       "patches first encountered out of id order (first chunk holds no object of patch 0)", ["C12", "C02"])
mutant("self-c12-radius-from-mean", "C12", "src/yaw/catalog/patch.py",
       "        new.radius = coords.distance(new.center).max()", "        new.radius = coords.distance(coords.mean(weights)).max()",
       "a given centre that is not the data mean (given centres, sparse patches)")
mutant("self-c16-no-reseed", "C16", "src/yaw/catalog/readers.py",
       "        super()._reset_iter_state()\n        self.generator.reseed()", "        super()._reset_iter_state()",
       "a generator that has been used before the catalog is created")
mutant("self-c16-independent-attributes", "C16", "src/yaw/randoms.py",
       '            data["redshifts"] = self.redshifts[idx]',
       '            data["redshifts"] = self.redshifts[self.rng.integers(0, self.data_size, size=probe_size)]',
       "both weights and redshifts supplied")
mutant("self-c16-tail-not-truncated", "C16", "src/yaw/catalog/readers.py",
       "            probe_size -= self._num_samples - self.num_records", "            pass",
       "a size that is not a multiple of the chunk size", ["C16", "C02"])
mutant("self-c18-reads-rest-of-input", "C18", "src/yaw/catalog/readers.py",
       "        chunk = self._data[start:end]\n", "        chunk = self._data[start:][: self.chunksize]\n",
       "any input longer than one chunk: every request spans the rest of the input")
mutant("self-c18-probe-rereads", "C18", "src/yaw/catalog/readers.py",
       "            for chunk in iter(self):\n                idx_keep = idx_keep[idx_keep >= 0]",
       "            for chunk in list(iter(self)) + list(iter(self))[:0]:\n                idx_keep = idx_keep[idx_keep >= 0]",
       "generated centres (probe pass): the source is read twice for the probe")


def main() -> int:
    wt = tempfile.mkdtemp(prefix="selfmut-", dir="/tmp")
    os.rmdir(wt)
    subprocess.run(["git", "-C", "/repo", "worktree", "add", "-q", "--detach", wt, "HEAD"], check=True)
    made = 0
    try:
        for m in M:
            subprocess.run(["git", "-C", wt, "checkout", "-q", "--", "."], check=True)
            p = os.path.join(wt, m["path"])
            s = open(p).read()
            if s.count(m["old"]) != 1:
                print(f"{m['id']}: pattern occurs {s.count(m['old'])} times, skipped")
                continue
            open(p, "w").write(s.replace(m["old"], m["new"]))
            diff = subprocess.run(["git", "-C", wt, "diff"], capture_output=True, text=True).stdout
            d = os.path.join(SEEDED, m["id"])
            os.makedirs(d, exist_ok=True)
            open(os.path.join(d, "patch.diff"), "w").write(diff)
            meta = dict(
                id=m["id"], property=m["property"], author="self (sensitivity mutant, not independent)",
                needs=m["needs"], expected_checks=m["expected_checks"],
                ran="tools/seeded.py (applies the patch to /repo, runs the check, reverts)",
            )
            json.dump(meta, open(os.path.join(d, "meta.json"), "w"), indent=1)
            made += 1
    finally:
        subprocess.run(["git", "-C", "/repo", "worktree", "remove", "--force", wt])
        shutil.rmtree(wt, ignore_errors=True)
    print(f"{made} mutants written")
    return 0


if __name__ == "__main__":
    sys.exit(main())
