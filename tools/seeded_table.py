#!/venv/bin/python
"""Print the markdown table of seeded changes and which checks catch them
(from seeded/*/meta.json and the result files written by tools/seeded.py)."""

from __future__ import annotations

import json
import os

VERIF = os.path.dirname(os.path.dirname(os.path.abspath(__file__)))
SEEDED = os.path.join(VERIF, "seeded")


def load(d, name):
    p = os.path.join(SEEDED, d, name)
    return json.load(open(p)) if os.path.exists(p) else None


def fmt(r):
    if r is None:
        return "–"
    return ", ".join(r["caught_by"]) if r["caught_by"] else "**missed**"


def main() -> None:
    print("| id | breaks | needs, in order to manifest | first run | final checks (git apply in /repo) | replay reproduces |")
    print("|---|---|---|---|---|---|")
    for d in sorted(os.listdir(SEEDED)):
        meta = load(d, "meta.json")
        if meta is None:
            continue
        first = load(d, "result_baseline.json") or load(d, "result_round2_first.json") or load(d, "result_round3_first.json") or load(d, "result_round4_first.json") or load(d, "result_round5_first.json") or load(d, "result_round6_first.json") or load(d, "result_round7_first.json") or load(d, "result_round8_first.json")
        final = load(d, "result.json")
        rep = "–"
        if final:
            vals = [v.get("replay_reproduces") for v in final["results"].values() if v.get("exit") == 1]
            rep = "yes" if vals and all(vals) else ("no" if vals else "–")
        needs = (meta.get("needs") or "").replace("|", "/")
        print(f"| {d} | {meta['property']} | {needs} | {fmt(first) if d.startswith('agent') else 'n/a'} | {fmt(final)} | {rep} |")


if __name__ == "__main__":
    main()
