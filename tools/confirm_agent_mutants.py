#!/venv/bin/python
"""
Confirm the changes written by the sub-agents (under /tmp/seeded_out/<ID>/) in a
scratch worktree of /repo and, if confirmed, keep them as
/verif/seeded/agent-<ID>-<n>/ (patch.diff, demo.py, meta.json, notes.md).

Confirmed means: the patch applies to HEAD, the repository's 111 tests pass with
it, the demonstration exits 0 without the patch and non-zero with it.
"""

from __future__ import annotations

import glob
import json
import os
import re
import shutil
import subprocess
import sys

VERIF = os.path.dirname(os.path.dirname(os.path.abspath(__file__)))
OUT = os.environ.get("SEEDED_OUT", "/tmp/seeded_out")
PREFIX = os.environ.get("SEEDED_PREFIX", "agent")
WT = "/tmp/confirm_wt"


def sh(cmd, **kw):
    return subprocess.run(cmd, capture_output=True, text=True, **kw)


def main() -> int:
    ids = sys.argv[1:] or sorted(d for d in os.listdir(OUT) if os.path.isdir(os.path.join(OUT, d)))
    if os.path.exists(WT):
        sh(["git", "-C", "/repo", "worktree", "remove", "--force", WT])
        shutil.rmtree(WT, ignore_errors=True)
    sh(["git", "-C", "/repo", "worktree", "add", "-q", "--detach", WT, "HEAD"], check=True)
    shutil.copy("/repo/src/yaw/_version.py", os.path.join(WT, "src/yaw/_version.py"))  # generated, git-ignored
    env = dict(os.environ, PYTHONPATH=os.path.join(WT, "src"), YAW_SRC=os.path.join(WT, "src"))
    try:
        for pid in ids:
            d = os.path.join(OUT, pid)
            patches = sorted(p for p in glob.glob(os.path.join(d, "patch*.diff")))
            seen = set()
            for patch in patches:
                m = re.search(r"(\d)", os.path.basename(patch))
                n = m.group(1) if m else "1"
                if n in seen:
                    continue
                seen.add(n)
                demo = next((p for p in (os.path.join(d, f"demo{n}.py"), os.path.join(d, f"demo__{n}__.py"), os.path.join(d, f"demo_{n}.py")) if os.path.exists(p)), None)
                sid = f"{PREFIX}-{pid}-{n}"
                sh(["git", "-C", WT, "checkout", "--", "."])
                rec = dict(id=sid, property=pid, author="independent sub-agent (given only the property text and a scratch worktree)")
                if demo is None:
                    print(f"{sid}: no demo found")
                    continue
                r0 = sh([sys.executable, demo], env=env, timeout=900, cwd=WT)
                rec["demo_exit_unmodified"] = r0.returncode
                ap = sh(["git", "-C", WT, "apply", patch])
                if ap.returncode != 0:
                    print(f"{sid}: patch does not apply: {ap.stderr[:200]}")
                    continue
                t = sh([sys.executable, "-m", "pytest", "-q", "-p", "no:cacheprovider", "--timeout=900", "tests"], env=env, cwd=WT, timeout=1800)
                tail = [ln for ln in t.stdout.splitlines() if "passed" in ln or "failed" in ln or "error" in ln.lower()]
                rec["tests_with_patch"] = tail[-1] if tail else t.stdout[-200:]
                r1 = sh([sys.executable, demo], env=env, timeout=900, cwd=WT)
                rec["demo_exit_modified"] = r1.returncode
                sh(["git", "-C", WT, "checkout", "--", "."])
                ok = r0.returncode == 0 and r1.returncode != 0 and "111 passed" in rec["tests_with_patch"]
                rec["confirmed"] = ok
                print(f"{sid}: demo {r0.returncode}->{r1.returncode}, tests: {rec['tests_with_patch']}, confirmed={ok}", flush=True)
                if ok:
                    dst = os.path.join(VERIF, "seeded", sid)
                    os.makedirs(dst, exist_ok=True)
                    shutil.copy(patch, os.path.join(dst, "patch.diff"))
                    shutil.copy(demo, os.path.join(dst, "demo.py"))
                    notes = os.path.join(d, "notes.md")
                    if os.path.exists(notes):
                        shutil.copy(notes, os.path.join(dst, "notes.md"))
                    rec["ran"] = (
                        "tools/confirm_agent_mutants.py: scratch worktree of /repo HEAD; demo.py exit 0 unmodified, non-zero "
                        "with patch; pytest 111 passed with patch; then tools/seeded.py against the registered checks"
                    )
                    meta_path = os.path.join(dst, "meta.json")
                    old = json.load(open(meta_path)) if os.path.exists(meta_path) else {}
                    old.update(rec)
                    json.dump(old, open(meta_path, "w"), indent=1, sort_keys=True)
    finally:
        sh(["git", "-C", "/repo", "worktree", "remove", "--force", WT])
        shutil.rmtree(WT, ignore_errors=True)
    return 0


if __name__ == "__main__":
    sys.exit(main())
