#!/venv/bin/python
"""
Single entry point of the verification machinery.

    /venv/bin/python /verif/check.py <property-id> [--tier quick|thorough] [--replay FILE]
                                     [--runs N] [--jobs N]
    /venv/bin/python /verif/check.py selftest

Honours VERIF_SEED and VERIF_TIER.  Imports ``yaw`` from /repo/src (the working
tree).  See DESIGN.md.
"""
from __future__ import annotations

import argparse
import importlib
import os
import sys

HERE = os.path.dirname(os.path.abspath(__file__))
sys.path.insert(0, HERE)

# thread pools of numerical libraries would be real, uncontrolled concurrency
for var in ("OMP_NUM_THREADS", "OPENBLAS_NUM_THREADS", "MKL_NUM_THREADS", "NUMEXPR_NUM_THREADS"):
    os.environ[var] = "1"
os.environ.pop("YAW_NUM_THREADS", None)

ENGINES = {
    "C02": "fakemp", "C03": "fakemp", "C05": "fakemp", "C09": "fakemp", "C12": "fakemp",
    "C16": "history", "C18": "fakemp", "C06": "fakempi", "C07": "history", "C08": "crashfs",
}


def _prepare(prop: str, argv_tail: list) -> None:
    """Engine-specific process set-up that must precede ``import yaw``."""
    if ENGINES[prop] == "crashfs" or prop == "C09":
        from sim import crashfs

        crashfs.ensure_preloaded([os.path.abspath(__file__), *argv_tail])
    if ENGINES[prop] == "fakempi" or os.environ.get("VERIF_FORCE_MPI") == "1":
        from sim import fakempi

        fakempi.install()  # must precede ``import yaw``
    import warnings

    import numpy as np
    import pandas  # noqa: F401  (warm imports in the parent; children are forked)
    import yaw  # noqa: F401

    warnings.filterwarnings("ignore")
    np.seterr(all="ignore")


def digests_main(prop: str, ncases: int, jobs: int) -> int:
    """Print {case index: [verdict, digest]} for the first cases of the quick tier
    (used by the determinism self-test, which runs this in fresh interpreters)."""
    import json

    prop = prop.upper()
    _prepare(prop, sys.argv[1:])
    mod = importlib.import_module(f"checks.{prop.lower()}")
    from sim import selftest

    print(json.dumps(selftest.digests(mod, prop, ncases, jobs, int(os.environ.get("VERIF_SEED", "0")))))
    return 0


def main(argv=None) -> int:
    if argv is None and len(sys.argv) >= 2 and sys.argv[1] == "digests":
        return digests_main(sys.argv[2], int(sys.argv[3]), int(sys.argv[4]))
    ap = argparse.ArgumentParser()
    ap.add_argument("prop")
    ap.add_argument("--tier", default=os.environ.get("VERIF_TIER", "quick"), choices=["quick", "thorough"])
    ap.add_argument("--replay")
    ap.add_argument("--runs", type=int)
    ap.add_argument("--jobs", type=int, default=int(os.environ.get("VERIF_JOBS", "16")))
    args = ap.parse_args(argv)
    seed = int(os.environ.get("VERIF_SEED", "0"))

    if args.prop == "selftest":
        from sim import selftest

        return selftest.main(seed, args.jobs, [p.upper() for p in os.environ.get("VERIF_SELFTEST_PROPS", "").split(",") if p] or None)

    if os.environ.get("PYTHONHASHSEED") is None:
        # fixed hash seed: set iteration order of str sets must not differ between
        # the run that finds a violation and the one that replays it
        os.environ["PYTHONHASHSEED"] = "0"
        os.execv(sys.executable, [sys.executable, os.path.abspath(__file__), *sys.argv[1:]])

    prop = args.prop.upper()
    if prop not in ENGINES:
        print(f"unknown property {prop}")
        return 2
    _prepare(prop, sys.argv[1:])
    mod = importlib.import_module(f"checks.{prop.lower()}")
    from sim import harness

    if args.replay:
        return harness.replay(mod, args.replay)
    return harness.run_check(mod, args.tier, seed, jobs=args.jobs, runs=args.runs)


if __name__ == "__main__":
    try:
        code = main()
    except SystemExit:
        raise
    except BaseException as err:  # noqa: BLE001 - a crash of the machinery is never a verdict (exit 1 means VIOLATION)
        import traceback

        traceback.print_exc()
        print(f"HARNESS-ERROR {type(err).__name__}: {err}", flush=True)
        code = 2
    sys.exit(code)
