/*
 * crashfs: LD_PRELOAD shim that numbers every mutating file-system operation
 * below a sandbox root and, at operation k, either kills the process
 * (_exit(137): user-space buffers are lost, what reached the kernel survives)
 * or makes the call fail with a chosen errno.
 *
 * Controlled from Python through ctypes.CDLL(None):
 *   crashfs_set_root(path)            sandbox root (prefix match on resolved paths)
 *   crashfs_set_log(path)             append "k op path size" lines there (outside the root)
 *   crashfs_arm(mode, k, err, sticky) mode 0 = count only, 1 = crash before op k,
 *                                     2 = op k fails with errno err (sticky: and all later ones)
 *                                     3 = count READ operations (read/pread/readv/mmap of files
 *                                         below the root) instead of mutating ones
 *                                     4 = read operation k fails with errno err
 *                                     (stdio fread is not covered: glibc reads through an internal
 *                                     call that cannot be interposed)
 *   crashfs_disarm()                  stop counting
 *   crashfs_count()                   number of counted operations so far
 *
 * Build: clang -O1 -shared -fPIC crashfs/shim.c -o build/libcrashfs.so -ldl
 */
#define _GNU_SOURCE
#include <dlfcn.h>
#include <errno.h>
#include <fcntl.h>
#include <limits.h>
#include <stdarg.h>
#include <stdio.h>
#include <stdlib.h>
#include <string.h>
#include <sys/mman.h>
#include <sys/stat.h>
#include <sys/types.h>
#include <sys/uio.h>
#include <unistd.h>

static char g_root[PATH_MAX];
static size_t g_rootlen = 0;
static int g_active = 0;
static int g_mode = 0;
static long g_k = -1;
static int g_err = 0;
static int g_sticky = 0;
static long g_count = 0;
static int g_logfd = -1;
static int g_busy = 0; /* re-entrancy guard */

#define REAL(name) \
    static __typeof__(&name) real_##name = NULL; \
    if (!real_##name) real_##name = (__typeof__(&name))dlsym(RTLD_NEXT, #name)

static ssize_t raw_write(int fd, const void *buf, size_t n) {
    REAL(write);
    return real_write(fd, buf, n);
}

void crashfs_set_root(const char *path) {
    if (!path) { g_rootlen = 0; g_root[0] = 0; return; }
    if (!realpath(path, g_root)) strncpy(g_root, path, PATH_MAX - 1);
    g_rootlen = strlen(g_root);
}
void crashfs_set_log(const char *path) {
    REAL(open);
    if (g_logfd >= 0) { close(g_logfd); g_logfd = -1; }
    if (path) g_logfd = real_open(path, O_WRONLY | O_CREAT | O_APPEND, 0644);
}
void crashfs_arm(int mode, long k, int err, int sticky) {
    g_mode = mode; g_k = k; g_err = err; g_sticky = sticky; g_count = 0; g_active = 1;
}
void crashfs_disarm(void) { g_active = 0; }
long crashfs_count(void) { return g_count; }

static int under_root(const char *abs) {
    if (!g_rootlen) return 0;
    if (strncmp(abs, g_root, g_rootlen) != 0) return 0;
    return abs[g_rootlen] == '/' || abs[g_rootlen] == 0;
}

/* resolve (dirfd, path) to an absolute path without requiring the leaf to exist */
static int resolve_at(int dirfd, const char *path, char *out) {
    char dir[PATH_MAX];
    if (!path) return 0;
    if (path[0] == '/') {
        strncpy(out, path, PATH_MAX - 1); out[PATH_MAX - 1] = 0;
    } else {
        if (dirfd == AT_FDCWD) {
            if (!getcwd(dir, sizeof dir)) return 0;
        } else {
            char link[64];
            snprintf(link, sizeof link, "/proc/self/fd/%d", dirfd);
            ssize_t n = readlink(link, dir, sizeof dir - 1);
            if (n <= 0) return 0;
            dir[n] = 0;
        }
        if (snprintf(out, PATH_MAX, "%s/%s", dir, path) >= PATH_MAX) return 0;
    }
    /* canonicalise the directory part (the sandbox root itself is canonical) */
    char tmp[PATH_MAX], canon[PATH_MAX];
    strncpy(tmp, out, PATH_MAX - 1); tmp[PATH_MAX - 1] = 0;
    char *slash = strrchr(tmp, '/');
    if (slash && slash != tmp) {
        *slash = 0;
        if (realpath(tmp, canon)) {
            if (snprintf(out, PATH_MAX, "%s/%s", canon, slash + 1) >= PATH_MAX) return 0;
        }
    }
    return 1;
}

static int fd_path(int fd, char *out) {
    char link[64];
    snprintf(link, sizeof link, "/proc/self/fd/%d", fd);
    ssize_t n = readlink(link, out, PATH_MAX - 1);
    if (n <= 0) return 0;
    out[n] = 0;
    /* deleted files show up as "path (deleted)": still count them by prefix */
    return 1;
}

static int fd_writable(int fd) {
    int fl = fcntl(fd, F_GETFL);
    if (fl < 0) return 0;
    return (fl & O_ACCMODE) != O_RDONLY;
}

/* returns 0: proceed normally; 1: fail with errno set */
static int hit(const char *op, const char *path, long size) {
    if (!g_active || g_busy) return 0;
    g_busy = 1;
    long n = ++g_count;
    if (g_logfd >= 0) {
        char line[PATH_MAX + 128];
        const char *rel = path + g_rootlen;
        if (*rel == '/') rel++;
        int len = snprintf(line, sizeof line, "%ld %s %s %ld\n", n, op, *rel ? rel : ".", size);
        raw_write(g_logfd, line, (size_t)len);
    }
    int fail = 0;
    if (g_mode == 1 && n == g_k) {
        _exit(137);
    } else if ((g_mode == 2 || g_mode == 4) && (n == g_k || (g_sticky && n > g_k))) {
        fail = 1;
    }
    g_busy = 0;
    if (fail) errno = g_err;
    return fail;
}

static int check_path_at(const char *op, int dirfd, const char *path, long size) {
    char abs[PATH_MAX];
    if (!g_active || g_busy || !g_rootlen || g_mode >= 3) return 0;
    if (!resolve_at(dirfd, path, abs)) return 0;
    if (!under_root(abs)) return 0;
    return hit(op, abs, size);
}

static int check_fd_read(const char *op, int fd, long size) {
    char abs[PATH_MAX];
    struct stat st;
    if (!g_active || g_busy || !g_rootlen || g_mode < 3 || fd < 0) return 0;
    if (fstat(fd, &st) != 0 || !S_ISREG(st.st_mode)) return 0;
    if (!fd_path(fd, abs)) return 0;
    if (!under_root(abs)) return 0;
    return hit(op, abs, size);
}

static int check_fd(const char *op, int fd, long size) {
    char abs[PATH_MAX];
    if (!g_active || g_busy || !g_rootlen || g_mode >= 3) return 0;
    if (!fd_writable(fd)) return 0;
    if (!fd_path(fd, abs)) return 0;
    if (!under_root(abs)) return 0;
    return hit(op, abs, size);
}

static int mutating_flags(int flags) {
    return (flags & O_ACCMODE) != O_RDONLY || (flags & (O_CREAT | O_TRUNC));
}

/* ------------------------------------------------------------------ open */
int open(const char *path, int flags, ...) {
    REAL(open);
    mode_t mode = 0;
    if (flags & (O_CREAT | O_TMPFILE)) { va_list ap; va_start(ap, flags); mode = va_arg(ap, mode_t); va_end(ap); }
    if (mutating_flags(flags) && check_path_at("open", AT_FDCWD, path, flags)) return -1;
    return real_open(path, flags, mode);
}
int open64(const char *path, int flags, ...) {
    REAL(open64);
    mode_t mode = 0;
    if (flags & (O_CREAT | O_TMPFILE)) { va_list ap; va_start(ap, flags); mode = va_arg(ap, mode_t); va_end(ap); }
    if (mutating_flags(flags) && check_path_at("open", AT_FDCWD, path, flags)) return -1;
    return real_open64(path, flags, mode);
}
int openat(int dirfd, const char *path, int flags, ...) {
    REAL(openat);
    mode_t mode = 0;
    if (flags & (O_CREAT | O_TMPFILE)) { va_list ap; va_start(ap, flags); mode = va_arg(ap, mode_t); va_end(ap); }
    if (mutating_flags(flags) && check_path_at("open", dirfd, path, flags)) return -1;
    return real_openat(dirfd, path, flags, mode);
}
int openat64(int dirfd, const char *path, int flags, ...) {
    REAL(openat64);
    mode_t mode = 0;
    if (flags & (O_CREAT | O_TMPFILE)) { va_list ap; va_start(ap, flags); mode = va_arg(ap, mode_t); va_end(ap); }
    if (mutating_flags(flags) && check_path_at("open", dirfd, path, flags)) return -1;
    return real_openat64(dirfd, path, flags, mode);
}
int creat(const char *path, mode_t mode) {
    REAL(creat);
    if (check_path_at("creat", AT_FDCWD, path, 0)) return -1;
    return real_creat(path, mode);
}
int creat64(const char *path, mode_t mode) {
    REAL(creat64);
    if (check_path_at("creat", AT_FDCWD, path, 0)) return -1;
    return real_creat64(path, mode);
}
static int fopen_mutates(const char *mode) { return mode && (strchr(mode, 'w') || strchr(mode, 'a') || strchr(mode, '+')); }
FILE *fopen(const char *path, const char *mode) {
    REAL(fopen);
    if (fopen_mutates(mode) && check_path_at("fopen", AT_FDCWD, path, 0)) return NULL;
    return real_fopen(path, mode);
}
FILE *fopen64(const char *path, const char *mode) {
    REAL(fopen64);
    if (fopen_mutates(mode) && check_path_at("fopen", AT_FDCWD, path, 0)) return NULL;
    return real_fopen64(path, mode);
}

/* ------------------------------------------------------------------ read */
ssize_t read(int fd, void *buf, size_t n) {
    REAL(read);
    if (check_fd_read("read", fd, (long)n)) return -1;
    return real_read(fd, buf, n);
}
ssize_t pread(int fd, void *buf, size_t n, off_t off) {
    REAL(pread);
    if (check_fd_read("pread", fd, (long)n)) return -1;
    return real_pread(fd, buf, n, off);
}
ssize_t pread64(int fd, void *buf, size_t n, off64_t off) {
    REAL(pread64);
    if (check_fd_read("pread", fd, (long)n)) return -1;
    return real_pread64(fd, buf, n, off);
}
ssize_t readv(int fd, const struct iovec *iov, int cnt) {
    REAL(readv);
    if (check_fd_read("readv", fd, (long)cnt)) return -1;
    return real_readv(fd, iov, cnt);
}
void *mmap(void *addr, size_t len, int prot, int flags, int fd, off_t off) {
    REAL(mmap);
    if (fd >= 0 && check_fd_read("mmap", fd, (long)len)) return MAP_FAILED;
    return real_mmap(addr, len, prot, flags, fd, off);
}
void *mmap64(void *addr, size_t len, int prot, int flags, int fd, off64_t off) {
    REAL(mmap64);
    if (fd >= 0 && check_fd_read("mmap", fd, (long)len)) return MAP_FAILED;
    return real_mmap64(addr, len, prot, flags, fd, off);
}

/* ----------------------------------------------------------------- write */
ssize_t write(int fd, const void *buf, size_t n) {
    REAL(write);
    if (check_fd("write", fd, (long)n)) return -1;
    return real_write(fd, buf, n);
}
ssize_t pwrite(int fd, const void *buf, size_t n, off_t off) {
    REAL(pwrite);
    if (check_fd("pwrite", fd, (long)n)) return -1;
    return real_pwrite(fd, buf, n, off);
}
ssize_t pwrite64(int fd, const void *buf, size_t n, off64_t off) {
    REAL(pwrite64);
    if (check_fd("pwrite", fd, (long)n)) return -1;
    return real_pwrite64(fd, buf, n, off);
}
ssize_t writev(int fd, const struct iovec *iov, int cnt) {
    REAL(writev);
    long total = 0;
    for (int i = 0; i < cnt; i++) total += (long)iov[i].iov_len;
    if (check_fd("writev", fd, total)) return -1;
    return real_writev(fd, iov, cnt);
}
int ftruncate(int fd, off_t len) {
    REAL(ftruncate);
    if (check_fd("ftruncate", fd, (long)len)) return -1;
    return real_ftruncate(fd, len);
}
int ftruncate64(int fd, off64_t len) {
    REAL(ftruncate64);
    if (check_fd("ftruncate", fd, (long)len)) return -1;
    return real_ftruncate64(fd, len);
}
int truncate(const char *path, off_t len) {
    REAL(truncate);
    if (check_path_at("truncate", AT_FDCWD, path, (long)len)) return -1;
    return real_truncate(path, len);
}

/* ----------------------------------------------------------------- stdio */
size_t fwrite(const void *ptr, size_t size, size_t nmemb, FILE *f) {
    REAL(fwrite);
    if (f && check_fd("fwrite", fileno(f), (long)(size * nmemb))) return 0;
    return real_fwrite(ptr, size, nmemb, f);
}
int fputs(const char *s, FILE *f) {
    REAL(fputs);
    if (f && check_fd("fputs", fileno(f), (long)strlen(s))) return EOF;
    return real_fputs(s, f);
}
int fflush(FILE *f) {
    REAL(fflush);
    if (f && check_fd("fflush", fileno(f), 0)) return EOF;
    return real_fflush(f);
}
int fclose(FILE *f) {
    REAL(fclose);
    if (f && check_fd("fclose", fileno(f), 0)) { /* the stream is still released */ real_fclose(f); errno = g_err; return EOF; }
    return real_fclose(f);
}

/* ------------------------------------------------------------- directory */
int mkdir(const char *path, mode_t mode) {
    REAL(mkdir);
    if (check_path_at("mkdir", AT_FDCWD, path, 0)) return -1;
    return real_mkdir(path, mode);
}
int mkdirat(int dirfd, const char *path, mode_t mode) {
    REAL(mkdirat);
    if (check_path_at("mkdir", dirfd, path, 0)) return -1;
    return real_mkdirat(dirfd, path, mode);
}
int unlink(const char *path) {
    REAL(unlink);
    if (check_path_at("unlink", AT_FDCWD, path, 0)) return -1;
    return real_unlink(path);
}
int unlinkat(int dirfd, const char *path, int flags) {
    REAL(unlinkat);
    if (check_path_at((flags & AT_REMOVEDIR) ? "rmdir" : "unlink", dirfd, path, 0)) return -1;
    return real_unlinkat(dirfd, path, flags);
}
int rmdir(const char *path) {
    REAL(rmdir);
    if (check_path_at("rmdir", AT_FDCWD, path, 0)) return -1;
    return real_rmdir(path);
}
int rename(const char *a, const char *b) {
    REAL(rename);
    if (check_path_at("rename", AT_FDCWD, b, 0)) return -1;
    return real_rename(a, b);
}
int renameat(int fa, const char *a, int fb, const char *b) {
    REAL(renameat);
    if (check_path_at("rename", fb, b, 0)) return -1;
    return real_renameat(fa, a, fb, b);
}
int renameat2(int fa, const char *a, int fb, const char *b, unsigned int flags) {
    REAL(renameat2);
    if (check_path_at("rename", fb, b, 0)) return -1;
    return real_renameat2(fa, a, fb, b, flags);
}
