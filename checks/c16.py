"""
C16 -- random catalogs: exact size, footprint, joint attributes, reproducible
by seed.

Engine E3 (Hypothesis stateful machine on the generator's hidden state) + E1
(``Catalog.from_random`` under the fake multiprocessing scheduler).  A history
is a sequence of uses of ONE generator instance -- direct draws, probes,
complete and abandoned passes of readers, catalog creations; whatever happened
before, ``from_random(size, chunk)`` must store exactly the records a *fresh*
generator with the same seed yields for the same (size, chunk).

Uniformity in area is a statistical statement about a pure function; it is
attached only as a fixed-seed chi-square side oracle (deterministic).
"""

from __future__ import annotations

import copy
import os
import shutil
import tempfile

import numpy as np

from sim import oracles as orc
from sim import workloads as wl
from sim.core import Prng, Sim, Verdict, mix
from sim.identity import IdentitySeam
from sim.history import HistoryViolation, Recorder, producer, run_machine, run_prng_producer

PROP = "C16"
ENGINE = "history+fakemp"
LEVEL = "exploration"
BUDGET = dict(quick=100.0, thorough=1500.0)
BATCH = 1
CASE_TIMEOUT = 900.0
SCHEDULED = False
RULE = (
    "cases = seeded batches of histories (harness PRNG; a Hypothesis machine with the same rules is an optional producer) over ONE BoxRandoms instance with a "
    "drawn window (incl. both poles, thin strips, full sky), seed and attribute arrays.  Rules: gen(n), "
    "RandomReader.get_probe(n), full pass with chunk size c, pass abandoned after j chunks, "
    "Catalog.from_random(size, chunk, workers, patch mode) -- sequentially or, for workers > 1, under the "
    "seeded fake-multiprocessing scheduler.  After every from_random: stored records == records of a FRESH "
    "generator with the same seed for (size, chunk); on every output: exact size, every chunk <= c and only "
    "the last shorter, all points inside the window, every (weight, redshift) pair a row of the supplied "
    "sample.  One evaluation = one example (history); distinct_nontrivial = distinct histories with >= 2 ops."
)
ASSUMPTIONS = [
    "uniformity in area is checked only by a fixed-seed chi-square test over equal-area cells (p > 1e-6), "
    "which simulation does not decide",
    "the 'fresh generator' reference uses the same generator code under test (it is the definition of the input)",
]
PROBES = ["explicit_reseed", "explicit_reseed_zero", "cross_process_reproducibility", "history_with_abandoned_pass", "history_with_probe", "from_random_parallel", "window_with_pole", "size_multiple_of_chunk", "tail_chunk", "from_random_with_stalled_peer_fault", "second_generator_alive", "draw_aborted_midway", "nonfinite_sample_rows"]
REAL_VS_STUB = dict(
    real="yaw.randoms, RandomReader, Catalog.from_random and the whole creation pipeline, numpy Generator",
    stub="multiprocessing (sim.fakemp) for workers > 1; treecorr RNG/threads for patch_num; builtins.id (sim.identity)",
)

WINDOWS = [
    (10.0, 30.0, -10.0, 10.0),
    (0.0, 360.0, -90.0, 90.0),
    (100.0, 101.0, 60.0, 90.0),
    (0.0, 360.0, -90.0, -80.0),
    (200.0, 260.0, -5.0, 5.0),
    (359.0, 360.0, 0.0, 0.5),
]


def gen_cases(tier: str, verif_seed: int, runs: int | None = None) -> list[dict]:
    n = runs if runs is not None else (16 if tier == "quick" else 640)
    cases = []
    for i in range(n):
        prng = Prng(mix(verif_seed, PROP, i))
        cases.append(
            dict(
                prop=PROP,
                hyp_seed=prng.below(1 << 30),
                window=list(prng.choice(WINDOWS)),
                gen_seed=prng.below(100000),
                has_w=prng.chance(2, 3),
                has_z=prng.chance(2, 3),
                nattr=prng.randint(1, 40),
                max_examples=40 if tier == "quick" else 80,
                steps=8,
                # reproducibility by seed across interpreter processes (two fresh interpreters with
                # different PYTHONHASHSEED); expensive, so only a few cases carry it
                cross_process=(i % 8 == 0),
            )
        )
    return cases


def case_size(case: dict) -> int:
    return len(case.get("history") or []) * 10 + 5


def shrinks(case: dict):
    from sim.history import shrink_history

    if case.get("sessions"):
        from sim.history import shrink_sessions

        for sess in shrink_sessions(case["sessions"])[:32]:
            c = copy.deepcopy(case)
            c["sessions"] = sess
            yield c
        return
    hist = case.get("history")
    if not hist:
        return

    def simplify(op):
        if op[0] == "gen" and op[1] > 1:
            yield ["gen", 1]
        elif op[0] == "probe":
            yield ["probe", min(op[1], 5), 1]
        elif op[0] == "pass":
            if op[3] is not None:
                yield ["pass", op[1], op[2], 0]
            if op[1] > 2 * op[2]:
                yield ["pass", 2 * op[2], op[2], op[3]]
        elif op[0] == "from_random":
            _, size, c, workers, mode, k, seed = op
            if workers > 1:
                yield ["from_random", size, c, 1, mode, k, seed]
            if mode != "apply":
                yield ["from_random", size, c, workers, "apply", k, seed]
            if k > 1:
                yield ["from_random", size, c, workers, mode, 1, seed]
            if seed:
                yield ["from_random", size, c, workers, mode, k, 0]
            if c is not None and size > 2 * c:
                yield ["from_random", 2 * c, c, workers, mode, k, seed]
            if c is not None and size > c + 1 and size % c:
                yield ["from_random", c + 1, c, workers, mode, k, seed]

    for h in shrink_history(hist, simplify):
        c = copy.deepcopy(case)
        c["history"] = h
        yield c
    for key in ("has_w", "has_z"):
        if case.get(key):
            c = copy.deepcopy(case)
            c[key] = False
            yield c


# --------------------------------------------------------------------- model
def _attrs(case: dict):
    n = case["nattr"]
    w = (np.arange(n) + 1) / 4.0  # unique: identifies the source row
    z = 0.05 + 0.9 * ((np.arange(n) * 7919) % 1009) / 1009.0
    return w, z


def _make_generator(case: dict):
    import yaw

    w, z = _attrs(case)
    ra0, ra1, de0, de1 = case["window"]
    kw = {}
    if case["has_w"]:
        kw["weights"] = w
    if case["has_z"]:
        kw["redshifts"] = z
    return yaw.randoms.BoxRandoms(ra0, ra1, de0, de1, seed=case["gen_seed"], **kw)


def _check_output(case: dict, chunk, where: str) -> None:
    """Invariants on anything a generator/reader yields."""
    ra0, ra1, de0, de1 = [np.deg2rad(v) for v in case["window"]]
    ra, dec = chunk["ra"], chunk["dec"]
    tol = 1e-12
    if len(ra) and (ra.min() < ra0 - tol or ra.max() > ra1 + tol or dec.min() < de0 - tol or dec.max() > de1 + tol):
        raise HistoryViolation(
            dict(property=PROP, failing_rule=where, outcome="outside_window"),
            f"{where}: point outside the window: ra [{ra.min()}, {ra.max()}] dec [{dec.min()}, {dec.max()}]",
        )
    if not (np.all(np.isfinite(ra)) and np.all(np.isfinite(dec))):
        raise HistoryViolation(dict(property=PROP, failing_rule=where, outcome="outside_window"), f"{where}: non-finite coordinates")
    w, z = _attrs(case)
    names = chunk.dtype.names
    if case["has_w"] != ("weights" in names) or case["has_z"] != ("redshifts" in names):
        raise HistoryViolation(dict(property=PROP, failing_rule=where, outcome="attributes_missing"), f"{where}: fields {names}")
    if case["has_w"]:
        idx = np.rint(chunk["weights"] * 4.0 - 1).astype(int)
        ok = (idx >= 0) & (idx < len(w))
        if not ok.all() or not np.array_equal(w[idx], chunk["weights"]):
            raise HistoryViolation(dict(property=PROP, failing_rule=where, outcome="attributes_not_from_sample"), f"{where}: weights not from the supplied sample")
        if case["has_z"] and not np.array_equal(z[idx], chunk["redshifts"]):
            raise HistoryViolation(
                dict(property=PROP, failing_rule=where, outcome="attributes_not_joint"),
                f"{where}: (weight, redshift) pairs are not rows of the supplied sample",
            )
    elif case["has_z"]:
        if not np.isin(chunk["redshifts"], z).all():
            raise HistoryViolation(dict(property=PROP, failing_rule=where, outcome="attributes_not_from_sample"), f"{where}: redshifts not from the supplied sample")


def _fresh_records(case: dict, size: int, chunksize: int | None) -> np.ndarray:
    gen = _make_generator(case)
    cs = chunksize or 16_777_216
    gen.reseed()
    chunks, left = [], size
    while left > 0:
        chunks.append(gen(min(cs, left)))
        left -= min(cs, left)
    return np.concatenate(chunks) if chunks else gen(0)


class Model:
    """Interpreter of op lists on one generator instance."""

    def __init__(self, case: dict, root: str, rec: Recorder | None = None) -> None:
        self.case = case
        self.root = root
        # object identity behind a seam (sim/identity.py): the generators and chunks released during
        # the history hand their identities to later ones in a recorded order
        self.ident = IdentitySeam(["fifo", "lifo", "random"][case.get("gen_seed", 0) % 3], seed=case.get("gen_seed", 0))
        self.ident.__enter__()
        self.gen = _make_generator(case)
        self.ops: list = []
        self.outcomes: list = []
        self.rec = rec or Recorder()
        self.ncat = 0

    def close(self) -> None:
        self.ident.__exit__(None, None, None)
        shutil.rmtree(self.root, ignore_errors=True)

    def apply(self, op: list) -> None:
        self.ops.append(list(op))
        self.outcomes.append("started")
        getattr(self, "op_" + op[0])(*op[1:])
        self.ident.collect()
        if self.outcomes[-1] == "started":
            self.outcomes[-1] = "ok"

    def op_gen(self, n: int) -> None:
        chunk = self.gen(n)
        if len(chunk) != n:
            raise HistoryViolation(dict(property=PROP, failing_rule="gen", outcome="wrong_size"), f"generator({n}) returned {len(chunk)} points")
        _check_output(self.case, chunk, "gen")

    def op_abort(self, k: int, n: int) -> None:
        """A draw that dies half-way: the k-th call into the generator's random stream raises (a
        failed allocation, Ctrl-C).  The exception reaches the caller, who keeps using the generator;
        every later seeded use must still reproduce the fresh stream."""

        class _Aborting:
            def __init__(self, real, at):
                self._real, self._at, self._calls, self.fired = real, at, 0, False

            def __getattr__(self, name):
                attr = getattr(self._real, name)
                if not callable(attr):
                    return attr

                def call(*a, **kw):
                    self._calls += 1
                    if self._calls == self._at and not self.fired:
                        attr(*a, **kw)  # the stream advances, the result is lost
                        self.fired = True
                        raise MemoryError("simulated allocation failure inside a draw")
                    return attr(*a, **kw)

                return call

        real = self.gen.rng
        proxy = _Aborting(real, k)
        self.gen.rng = proxy
        try:
            self.gen(n)
            self.outcomes[-1] = "abort-not-reached"
        except MemoryError:
            self.rec.probe("draw_aborted_midway")
            self.outcomes[-1] = "aborted"
        finally:
            if self.gen.rng is proxy:
                self.gen.rng = real

    def op_other(self, which: int, n: int) -> None:
        """A second, live generator with another window and seed: instances must not share state."""
        import yaw

        ra0, ra1, de0, de1 = self.case["window"]
        width, height = ra1 - ra0, de1 - de0
        if which % 2 == 0:
            win = (ra0 + 0.25 * width, ra0 + 0.5 * width, de0 + 0.5 * height, de1)
        else:
            lo = (ra1 + 7.0) % 300.0
            dlo = min(max(-85.0, de0 - 5.0), 75.0)
            win = (lo, min(360.0, lo + max(1.0, 0.5 * width)), dlo, min(89.0, dlo + max(1.0, 0.25 * height)))
        kw = {}
        if which >= 2:
            # samples with non-finite entries in *different* rows of weights and redshifts: whatever the
            # generator does with such rows (hand them out, drop them, refuse the sample), a drawn
            # (weight, redshift) pair must be a row of the supplied sample
            m = 12 + which
            w = (np.arange(m) + 1) / 4.0
            z = 0.05 + 0.9 * ((np.arange(m) * 7919) % 1009) / 1009.0
            w[which] = np.nan
            z[m - 2] = np.nan if which == 2 else np.inf
            kw = dict(weights=w, redshifts=z)
        try:
            other = yaw.randoms.BoxRandoms(*win, seed=self.case["gen_seed"] + 17 + which, **kw)
        except ValueError:
            if kw:
                return  # refusing a non-finite sample is an answer, too
            raise
        self.others = (getattr(self, "others", []) + [other])[-2:]
        self.rec.probe("second_generator_alive")
        pts = other(n)
        _check_output(dict(self.case, window=win, has_w=False, has_z=False), pts[["ra", "dec"]] if kw else pts, "other generator")
        if kw:
            self.rec.probe("nonfinite_sample_rows")
            rows = {(a.tobytes(), b.tobytes()) for a, b in zip(w, z)}
            names = pts.dtype.names
            if "weights" not in names or "redshifts" not in names:
                raise HistoryViolation(dict(property=PROP, failing_rule="other generator", outcome="attributes_missing"), f"other generator: fields {names}")
            bad = [(float(a), float(b)) for a, b in zip(pts["weights"], pts["redshifts"]) if (a.tobytes(), b.tobytes()) not in rows]
            if bad:
                raise HistoryViolation(
                    dict(property=PROP, failing_rule="other generator", outcome="attributes_not_joint"),
                    f"other generator (sample with non-finite entries in different rows): drawn pairs {bad[:3]} are not rows of the supplied sample",
                )

    def op_reseed(self, which: int, n: int) -> None:
        """reseed(seed) on the used generator, then draw: must equal a fresh generator with that seed."""
        seed = [0, self.case["gen_seed"], 1, 12345][which % 4]
        self.gen.reseed(seed)
        got = self.gen(n)
        fresh = _make_generator(dict(self.case, gen_seed=seed))(n)
        self.rec.probe("explicit_reseed")
        if seed == 0:
            self.rec.probe("explicit_reseed_zero")
        same = got.dtype == fresh.dtype and all(np.array_equal(got[nm], fresh[nm]) for nm in fresh.dtype.names)
        # later ops of the history compare against fresh generators of the case seed again
        self.gen.reseed(self.case["gen_seed"])
        if not same:
            raise HistoryViolation(
                dict(property=PROP, failing_rule="reseed", outcome="not_reproducible"),
                f"generator.reseed({seed}) followed by a draw of {n} points differs from a fresh generator with seed {seed} "
                f"(history {self.ops[:-1]})",
            )

    def op_probe(self, size: int, n: int) -> None:
        from yaw.catalog.readers import RandomReader

        n = min(n, size)
        reader = RandomReader(self.gen, size, None)
        chunk = reader.get_probe(n)
        self.rec.probe("history_with_probe")
        if len(chunk) != n:
            raise HistoryViolation(dict(property=PROP, failing_rule="probe", outcome="wrong_size"), f"get_probe({n}) returned {len(chunk)}")
        _check_output(self.case, chunk, "probe")

    def op_pass(self, size: int, chunksize: int, stop_after: int | None) -> None:
        from yaw.catalog.readers import RandomReader

        reader = RandomReader(self.gen, size, chunksize)
        total, lens, held = 0, [], []
        with reader:
            for i, chunk in enumerate(reader):
                if stop_after is not None and i >= stop_after:
                    self.rec.probe("history_with_abandoned_pass")
                    return
                _check_output(self.case, chunk, "pass")
                lens.append(len(chunk))
                total += len(chunk)
                held.append(chunk)  # kept, not copied: a caller may hold on to what it was given
        if total != size or any(ln > chunksize for ln in lens) or any(ln != chunksize for ln in lens[:-1]):
            raise HistoryViolation(
                dict(property=PROP, failing_rule="pass", outcome="wrong_size"),
                f"pass over {size} records in chunks of {chunksize} yielded lengths {lens}",
            )
        if stop_after is None and held:
            # a complete pass re-seeds: the chunks the caller collected are the stream of a
            # fresh generator with the same seed
            exp = _fresh_records(self.case, size, chunksize)
            got = np.concatenate(held)
            same = got.dtype == exp.dtype and len(got) == len(exp) and all(
                np.array_equal(got[nm], exp[nm]) for nm in exp.dtype.names
            )
            if not same:
                raise HistoryViolation(
                    dict(property=PROP, failing_rule="pass", outcome="not_reproducible"),
                    f"the chunks of a complete pass ({size} records, chunk {chunksize}) after history {self.ops[:-1]} "
                    "are not the stream of a fresh generator with the same seed",
                )

    def op_from_random(self, size: int, chunksize: int | None, workers: int, mode: str, k: int, sched_seed: int) -> None:
        import yaw
        import yaw.catalog.catalog as ycat
        from sim import fakemp
        from sim.scenes import sequential_mode

        case = self.case
        self.ncat += 1
        path = os.path.join(self.root, f"cat{self.ncat}")
        exp = _fresh_records(case, size, chunksize)
        if chunksize and size % chunksize == 0:
            self.rec.probe("size_multiple_of_chunk")
        elif chunksize and size > chunksize:
            self.rec.probe("tail_chunk")
        pk = {}
        centers = None
        if mode == "apply":
            c = wl.gen_centers(case["gen_seed"] + 3, k, "box")
            # centres: spread inside the window
            ra0, ra1, de0, de1 = case["window"]
            u = (np.arange(k) + 0.5) / k
            centers = np.deg2rad(np.column_stack([ra0 + u * (ra1 - ra0), de0 + u[::-1] * (de1 - de0)]))
            deg = dict(ra=np.rad2deg(exp["ra"]), dec=np.rad2deg(exp["dec"]))
            centers = wl.ensure_nonempty_centers(deg, centers)
            pk["patch_centers"] = yaw.AngularCoordinates(centers)
        else:
            if size < 10 * k + 1:
                k = max(1, size // 10)
                if k < 1 or size < 10:
                    return
            pk["patch_num"] = k
            pk["probe_size"] = max(10 * k, size // 2)

        def create():
            return yaw.Catalog.from_random(path, self.gen, size, chunksize=chunksize, max_workers=None, **pk)

        saved_tc = ycat.treecorr
        seeded_tc = ycat.treecorr = wl.SeededTreecorr(case["gen_seed"] % 9973)
        writer_errors: list[str] = []
        stalled = False
        try:
            if workers <= 1:
                with sequential_mode():
                    cat = create()
            else:
                self.rec.probe("from_random_parallel")
                sim = Sim(sched_seed, fs_root=self.root, cores=workers, step_cap=60_000)
                if sched_seed % 3 == 0:
                    # a slow or stalled peer: every timed wait that finds nothing outlasts its timeout
                    # (the pinned library waits without timeouts: then this changes nothing)
                    sim.faults["timeouts_fire"] = 0
                    self.rec.probe("from_random_with_stalled_peer_fault")
                try:
                    with fakemp.patched(sim):
                        v = sim.run(create)
                    stalled = bool(sim.faults.get("_fired", {}).get("timeouts_fire"))
                    if v != Verdict.COMPLETE:
                        raise HistoryViolation(dict(property=PROP, failing_rule="from_random", outcome=v), f"{v}: {sim.blocked_report}")
                    writer_errors.extend(str(e) for e in sim.objects.get("process_errors", []))
                    if sim.main.exc is not None:
                        raise sim.main.exc
                    cat = sim.main.result
                finally:
                    sim.cleanup()
        except HistoryViolation:
            raise
        except Exception as err:  # noqa: BLE001 - any library exception on fault-free input
            text = str(err) + " | " + " | ".join(writer_errors)
            if stalled:
                self.outcomes[-1] = "refused:stalled-peer"
                return  # giving up after a timeout is reported: legal; a short catalog would not be
            if seeded_tc.degenerate:
                self.outcomes[-1] = "refused:degenerate-centres"
                return  # k-means produced a non-finite centre: degenerate input, any refusal is legal
            if "contains no data" in text and mode != "apply":
                self.outcomes[-1] = "refused:empty-generated-centre"
                return  # generated centre without objects: legal refusal (raised in the writer process)
            raise HistoryViolation(
                dict(property=PROP, failing_rule="from_random", outcome="raises", exc=type(err).__name__),
                f"from_random({size}, chunk={chunksize}, workers={workers}, {mode}) raised {err!r}",
            ) from err
        finally:
            ycat.treecorr = saved_tc
        cache = orc.read_cache(path)
        stored = sum(len(r) for _, r in cache.values())
        if stored != size:
            raise HistoryViolation(
                dict(property=PROP, failing_rule="from_random", outcome="wrong_size"),
                f"from_random stored {stored} records, {size} requested (chunk={chunksize}, workers={workers})",
            )
        rec = dict(ra=exp["ra"], dec=exp["dec"])
        if case["has_w"]:
            rec["w"] = exp["weights"]
        if case["has_z"]:
            rec["z"] = exp["redshifts"]
        cols = ["ra", "dec"] + (["w"] if case["has_w"] else []) + (["z"] if case["has_z"] else [])
        msg = orc.total_multiset_problem(cache, cols, rec, degrees=False)
        if msg:
            raise HistoryViolation(
                dict(property=PROP, failing_rule="from_random", outcome="not_reproducible"),
                f"records of from_random({size}, chunk={chunksize}) after history {self.ops[:-1]} differ from a fresh generator with the same seed: {msg}",
            )
        for _, rows in cache.values():
            chunk = np.empty(len(rows), dtype=exp.dtype)
            for i, nm in enumerate(exp.dtype.names):
                chunk[nm] = rows[:, i]
            _check_output(case, chunk, "from_random")
        shutil.rmtree(path, ignore_errors=True)


def draw_op(prng) -> list:
    """One rule application drawn from the harness PRNG (same distributions as the
    Hypothesis machine below)."""
    chunks = [1, 2, 3, 5, 7, 10, 16, 20, 64]
    rule = prng.choice(["gen", "probe", "pass", "from_random", "from_random", "reseed", "other"])
    if rule == "other":
        if prng.chance(1, 2):
            return ["abort", prng.randint(1, 3), prng.randint(1, 20)]
        return ["other", prng.below(4), prng.randint(1, 20)]
    if rule == "reseed":
        return ["reseed", prng.below(4), prng.randint(1, 30)]
    if rule == "gen":
        return ["gen", prng.below(51)]
    if rule == "probe":
        return ["probe", prng.randint(1, 60), prng.randint(1, 60)]
    if rule == "pass":
        return ["pass", prng.randint(1, 60), prng.choice(chunks), None if prng.chance(1, 2) else prng.below(5)]
    return [
        "from_random", prng.randint(1, 80), None if prng.chance(1, 4) else prng.choice(chunks),
        prng.choice([1, 1, 2, 3]), prng.choice(["apply", "apply", "create"]), prng.randint(1, 4), prng.below(1 << 20),
    ]


def _machine_factory(case: dict, root: str, rec: Recorder):
    from hypothesis import strategies as st
    from hypothesis.stateful import RuleBasedStateMachine, rule

    sizes = st.integers(1, 60)
    chunks = st.sampled_from([1, 2, 3, 5, 7, 10, 16, 20, 64])

    class Machine(RuleBasedStateMachine):
        def __init__(self) -> None:
            super().__init__()
            self.model = Model(case, tempfile.mkdtemp(prefix="ex-", dir=root), rec)

        def _do(self, op):
            try:
                self.model.apply(op)
            except HistoryViolation as err:
                rec.last_failure = (list(self.model.ops), err)
                raise

        @rule(n=st.integers(0, 50))
        def gen(self, n):
            self._do(["gen", n])

        @rule(k=st.integers(1, 3), n=st.integers(1, 20))
        def abort(self, k, n):
            self._do(["abort", k, n])

        @rule(which=st.integers(0, 3), n=st.integers(1, 20))
        def other(self, which, n):
            self._do(["other", which, n])

        @rule(which=st.integers(0, 3), n=st.integers(1, 30))
        def reseed(self, which, n):
            self._do(["reseed", which, n])

        @rule(size=sizes, n=st.integers(1, 60))
        def probe(self, size, n):
            self._do(["probe", size, n])

        @rule(size=sizes, c=chunks, stop=st.one_of(st.none(), st.integers(0, 4)))
        def do_pass(self, size, c, stop):
            self._do(["pass", size, c, stop])

        @rule(
            size=st.integers(1, 80), c=st.one_of(st.none(), chunks), workers=st.sampled_from([1, 1, 2, 3]),
            mode=st.sampled_from(["apply", "apply", "create"]), k=st.integers(1, 4), seed=st.integers(0, 1 << 20),
        )
        def from_random(self, size, c, workers, mode, k, seed):
            if c is not None and c > size:
                pass
            self._do(["from_random", size, c, workers, mode, k, seed])

        def teardown(self):
            rec.finish_example(self.model.ops, self.model.outcomes)
            shutil.rmtree(self.model.root, ignore_errors=True)

    return Machine


_CROSS_PROCESS_PROGRAM = """
import hashlib, json, sys, warnings
warnings.filterwarnings("ignore")
sys.path.insert(0, {verif!r})
from checks import c16
case = json.loads({case!r})
gen = c16._make_generator(case)
a = gen(57)
b = c16._fresh_records(case, 41, 16)
h = hashlib.sha256()
for arr in (a, b):
    for name in arr.dtype.names:
        h.update(arr[name].tobytes())
print("DIGEST", h.hexdigest())
"""


def _cross_process_problem(case: dict) -> str | None:
    """The same seed must give the same points in every interpreter process."""
    import json
    import subprocess
    import sys

    verif = os.path.dirname(os.path.dirname(os.path.abspath(__file__)))
    prog = _CROSS_PROCESS_PROGRAM.format(verif=verif, case=json.dumps({k: v for k, v in case.items() if k != "history"}))
    procs = []
    for hs in ("1", "2"):
        env = dict(os.environ, PYTHONHASHSEED=hs)
        env.pop("LD_PRELOAD", None)
        procs.append(subprocess.Popen([sys.executable, "-c", prog], env=env, stdout=subprocess.PIPE, stderr=subprocess.DEVNULL))
    digests = []
    for p in procs:
        out, _ = p.communicate(timeout=300)
        line = [ln for ln in out.decode().splitlines() if ln.startswith("DIGEST ")]
        digests.append(line[-1].split()[1] if line else f"no output (exit {p.returncode})")
    if any(d.startswith("no output") for d in digests):
        raise RuntimeError(f"cross-process probe failed: {digests}")
    if digests[0] != digests[1]:
        return f"BoxRandoms(seed={case['gen_seed']}) yields different points in two interpreter processes (PYTHONHASHSEED 1 vs 2): {digests}"
    return None


def _uniformity_problem(case: dict) -> str | None:
    """Fixed-seed chi-square over equal-area cells (side oracle)."""
    from scipy import stats

    gen = _make_generator(case)
    gen.reseed()
    n = 24000
    pts = gen(n)
    ra0, ra1, de0, de1 = [np.deg2rad(v) for v in case["window"]]
    nx, ny = 6, 8
    x = np.clip(((pts["ra"] - ra0) / (ra1 - ra0) * nx).astype(int), 0, nx - 1)
    s0, s1 = np.sin(de0), np.sin(de1)
    y = np.clip(((np.sin(pts["dec"]) - s0) / (s1 - s0) * ny).astype(int), 0, ny - 1)
    counts = np.bincount(x * ny + y, minlength=nx * ny)
    chi2 = ((counts - n / (nx * ny)) ** 2 / (n / (nx * ny))).sum()
    p = stats.chi2.sf(chi2, nx * ny - 1)
    if p < 1e-6:
        return f"chi-square over {nx}x{ny} equal-area cells: chi2={chi2:.1f}, p={p:.2e}, counts={counts.tolist()}"
    return None


def _zy_single(case: dict, ops: list):
    """The failing history alone, in a pristine process: the signature it yields, or None."""
    res = run_case(dict(case, history=ops, sessions=None))
    return res.get("signature") if res.get("verdict") == "violation" else None


def run_case(case: dict) -> dict:
    import hashlib

    zy = None
    if case.get("history") is None and not case.get("sessions"):
        from sim.isolate import Zygote

        zy = Zygote(dict(single=_zy_single))  # pristine: forked before this process uses the library
    root = tempfile.mkdtemp(prefix="c16-", dir=wl.scratch_root())
    rec = Recorder()
    try:
        if case["window"][2] <= -90.0 or case["window"][3] >= 90.0:
            rec.probe("window_with_pole")
        violation = None
        if case.get("sessions"):
            # several sessions one after the other in this process; the last one is the failing one
            for hist in case["sessions"]:
                model = Model(case, tempfile.mkdtemp(prefix="ex-", dir=root), rec)
                try:
                    for op in hist:
                        model.apply(op)
                except HistoryViolation as err:
                    violation = (list(model.ops), err)
                finally:
                    model.close()
                rec.finish_example(model.ops, model.outcomes)
                if violation is not None:
                    break
        elif case.get("history") is not None:
            model = Model(case, root, rec)
            try:
                for op in case["history"]:
                    model.apply(op)
            except HistoryViolation as err:
                violation = (list(model.ops), err)
            finally:
                model.ident.__exit__(None, None, None)
            rec.finish_example(model.ops, model.outcomes)
        else:
            if case.get("cross_process"):
                rec.probe("cross_process_reproducibility")
                msg = _cross_process_problem(case)
                if msg:
                    return dict(
                        verdict="violation", signature=dict(property=PROP, failing_rule="cross_process", outcome="not_reproducible"),
                        detail=msg, digest="-", runs=1,
                    )
            msg = _uniformity_problem(case)
            if msg:
                return dict(
                    verdict="violation", signature=dict(property=PROP, failing_rule="uniformity", outcome="not_uniform"),
                    detail=msg, digest="-", runs=1,
                )
            if producer() == "hypothesis":
                err = run_machine(lambda: _machine_factory(case, root, rec), case["hyp_seed"], case["max_examples"], case["steps"])
            else:
                err = run_prng_producer(
                    lambda: Model(case, tempfile.mkdtemp(prefix="ex-", dir=root), rec),
                    draw_op, case["hyp_seed"], case["max_examples"], case["steps"], rec,
                )
            if err is not None:
                violation = rec.last_failure or ([], err)
        if os.environ.get("VERIF_DUMP_HISTORIES"):
            with open(os.path.join(os.environ["VERIF_DUMP_HISTORIES"], f"c16-{case['hyp_seed']}-{os.getpid()}.txt"), "w") as f:
                f.write("\n".join(rec.all_ops))
        digest = rec.digest()
        res = dict(
            verdict="ok" if violation is None else "violation",
            subs=[dict(digest=s, nontrivial=True, steps=0) for s in sorted(rec.shapes)]
            + [dict(digest="trivial", nontrivial=False, steps=0)] * max(0, rec.examples - len(rec.shapes)),
            digest=digest,
            nontrivial=bool(rec.shapes),
            steps=rec.ops_total,
            probes=rec.probes,
            head=None,
        )
        if violation is not None:
            ops, err = violation
            res.update(signature=err.signature, detail=err.detail, tail=ops)
            if case.get("sessions"):
                res.update(sessions=[list(h) for h in rec.histories])
            elif case.get("history") is not None or zy is None:
                res.update(history=ops)
            else:
                from sim.history import replay_form

                def single(c, o):
                    r = zy.call("single", c, o, timeout=240)
                    return r[1] if r[0] == "ok" else None

                res.update(replay_form(case, ops, err.signature, rec, single))
        return res
    finally:
        if zy is not None:
            zy.close()
        shutil.rmtree(root, ignore_errors=True)
