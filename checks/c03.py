"""
C03 -- jackknife sample k is the statistic with patch k left out.

Engine E1 (fake multiprocessing).  The schedule-dependent parts are the
accumulation of pair counts and per-patch histograms that arrive in completion
order; the rest is algebra over arrays.  For every explored schedule the
samples must be the leave-one-out values *in patch-index order*.

Reference: explicit leave-one-out recombination (loops over all i != k,
j != k) of the per-patch quantities that the *sequential* execution of the real
per-patch kernels produced, and -- for histograms -- of an independent per-patch
histogram computed from the raw data.bin files.
"""

from __future__ import annotations

import copy
import os
import shutil
import tempfile

import numpy as np

from sim import oracles as orc
from sim import scenes
from sim.core import Prng, Sim, Verdict, mix
from sim.identity import IdentitySeam

PROP = "C03"
ENGINE = "fakemp"
LEVEL = "exploration"
BUDGET = dict(quick=100.0, thorough=1500.0)
BATCH = 4
CHURN_CYCLES = 6
RULE = (
    "cases = seeded scenes (4 cached catalogs on shared centres, 2-6 patches, random binning, closed side, "
    "scales, weights, subsets of random catalogs) x variants (worker count, schedule policy/seed).  One "
    "evaluation = one simulated execution of crosscorrelate + autocorrelate + HistData.from_catalog + "
    "CorrFunc.sample + RedshiftData.from_corrfuncs; oracle = explicit leave-one-out recombination "
    "(rtol 1e-9, NaN-aware) of per-patch quantities from the sequential run, jackknife covariance formula, "
    "symmetry, eigenvalues >= -1e-12*trace, error == sqrt(diag).  distinct_nontrivial = distinct event-log "
    "digests among variants with a real scheduling choice."
)
ASSUMPTIONS = [
    "the universal quantifier over arbitrary pair-count arrays is only sampled through the scenes; what the "
    "simulation adds is the schedule quantifier (sample index k <-> patch index k under every completion order)",
    "per-patch pair counts themselves are taken from the sequential run of the real kernels (C01 is not claimed)",
]
PROBES = ["samples_with_large_common_value", "imap_completion_out_of_order", "landy_szalay", "davis_peebles", "nan_bins", "redshiftdata_with_auto", "redshiftdata_with_unk_auto", "exactly_zero_leave_one_out_normalisation", "identities_recycled", "wide_dynamic_range_weights", "resampled_after_set_patch_pair", "hundreds_of_patches", "handbuilt_containers"]
REAL_VS_STUB = dict(
    real="yaw measurements, paircounts/corrfunc/corrdata/redshifts algebra, trees, numpy einsum",
    stub="multiprocessing.Pool (sim.fakemp), _num_processes; builtins.id during the repeat/churn stage (sim.identity: identities of released objects recycled in a recorded order)",
)


def gen_cases(tier: str, verif_seed: int, runs: int | None = None) -> list[dict]:
    ncases = runs if runs is not None else (90 if tier == "quick" else 5000)
    nvar = 3 if tier == "quick" else 5
    cases = []
    for i in range(ncases):
        prng = Prng(mix(verif_seed, PROP, i))
        scene = scenes.gen_scene(prng, small=True)
        if prng.chance(1, 2):
            scene["z_unk"] = scene["z_runk"] = True  # unknown-sample autocorrelation available
        scene["wide"] = True
        if i % 4 == 1:
            scene["many"] = prng.choice([182, 200, 255, 300, 400])
            scene["many_flat"] = prng.chance(1, 2)
        variants = []
        for j in range(nvar):
            variants.append(
                dict(
                    workers=prng.randint(2, scene["k"] + 2) if j else 1,
                    policy=["first", "last", "prng", "rr", "prng"][j % 5] if j else "first",
                    sched_seed=prng.below(1 << 40),
                )
            )
        cases.append(
            dict(
                prop=PROP,
                scene=scene,
                randoms=prng.choice([["rref", "runk"], ["runk"], ["rref"]]),
                count_rr=prng.chance(2, 3),
                variants=variants,
                identity=prng.choice(["fifo", "lifo", "random", "fifo"]),
            )
        )
    return cases


def case_size(case: dict) -> int:
    sc = case["scene"]
    return sc["n_ref"] + sc["n_unk"] + sc["n_rref"] + sc["n_runk"] + 50 * sc["k"] + 20 * len(case["variants"])


def shrinks(case: dict):
    focus = case.get("_focus")
    if len(case["variants"]) > 1:
        for j in ([focus] if focus is not None else range(len(case["variants"]))):
            c = copy.deepcopy(case)
            c["variants"] = [case["variants"][j]]
            c.pop("_focus", None)
            yield c
        return
    sc = case["scene"]
    for key in ("n_ref", "n_unk", "n_rref", "n_runk"):
        v = max(8, sc[key] // 2)
        if v < sc[key]:
            c = copy.deepcopy(case)
            c["scene"][key] = v
            yield c
    if sc["k"] > 2:
        c = copy.deepcopy(case)
        c["scene"]["k"] -= 1
        yield c
    if len(sc["edges"]) > 2:
        c = copy.deepcopy(case)
        c["scene"]["edges"] = [sc["edges"][0], sc["edges"][-1]]
        yield c
    if isinstance(sc["scale"]["rmin"], list):
        c = copy.deepcopy(case)
        c["scene"]["scale"]["rmin"] = sc["scale"]["rmin"][0]
        c["scene"]["scale"]["rmax"] = sc["scale"]["rmax"][0]
        yield c
    if case["variants"][0]["workers"] > 1:
        c = copy.deepcopy(case)
        c["variants"][0]["workers"] = 1
        yield c


def _workload(case: dict, paths: dict, max_workers, out: dict) -> None:
    import yaw

    config = scenes.scene_config(case["scene"])
    kw = dict(max_workers=max_workers)
    cats = {name: yaw.Catalog(paths[name], **kw) for name in scenes.CATS}
    rk = {}
    if "rref" in case["randoms"]:
        rk["ref_rand"] = cats["rref"]
    if "runk" in case["randoms"]:
        rk["unk_rand"] = cats["runk"]
    cross = yaw.crosscorrelate(config, cats["ref"], cats["unk"], **rk, **kw)
    auto = yaw.autocorrelate(config, cats["ref"], cats["rref"], count_rr=case["count_rr"], **kw)
    hist = yaw.HistData.from_catalog(cats["ref"], config, **kw)
    if max_workers == 1:
        # reference only: the real per-patch histogram kernel, patch by patch
        from yaw.redshifts import _redshift_histogram

        rows = []
        for idx, patch in enumerate(cats["ref"].values()):
            r = _redshift_histogram(idx, patch, config.binning.binning)
            rows.append(np.asarray(r[1] if isinstance(r, tuple) else r, dtype="f8"))
        out["hist.per_patch"] = np.array(rows)
    out["cross"] = [orc.corrfunc_state(cf) for cf in cross]
    out["auto"] = [orc.corrfunc_state(cf) for cf in auto]
    out["cross.sample"] = [orc.sampled_state(cf.sample()) for cf in cross]
    out["auto.sample"] = [orc.sampled_state(cf.sample()) for cf in auto]
    out["cross.cov"] = [dict(cov=np.array(cf.sample().covariance), err=np.array(cf.sample().error)) for cf in cross]
    out["hist"] = orc.sampled_state(hist)
    if "many" in paths:
        many = yaw.Catalog(paths["many"], **kw)
        hm = yaw.HistData.from_catalog(many, config, **kw)
        out["hist.many"] = orc.sampled_state(hm)
        out["hist.many.cov"] = dict(cov=np.array(hm.covariance), err=np.array(hm.error))
        del hm
        if max_workers == 1:
            from yaw.redshifts import _redshift_histogram as _rh2

            rows = []
            for idx, patch in enumerate(many.values()):
                r = _rh2(idx, patch, config.binning.binning)
                rows.append(np.asarray(r[1] if isinstance(r, tuple) else r, dtype="f8"))
            out["hist.many.per_patch"] = np.array(rows)
        del many
    if "wide" in paths:
        wide = yaw.Catalog(paths["wide"], **kw)
        out["hist.wide"] = orc.sampled_state(yaw.HistData.from_catalog(wide, config, **kw))
        if max_workers == 1:
            from yaw.redshifts import _redshift_histogram as _rh

            rows = []
            for idx, patch in enumerate(wide.values()):
                r = _rh(idx, patch, config.binning.binning)
                rows.append(np.asarray(r[1] if isinstance(r, tuple) else r, dtype="f8"))
            out["hist.wide.per_patch"] = np.array(rows)
    out["hist.cov"] = dict(cov=np.array(hist.covariance), err=np.array(hist.error))
    nz = [yaw.RedshiftData.from_corrfuncs(c, ref_corr=a) for c, a in zip(cross, auto)]
    out["nz"] = [orc.sampled_state(x) for x in nz]
    nz0 = [yaw.RedshiftData.from_corrfuncs(c) for c in cross]
    out["nz0"] = [orc.sampled_state(x) for x in nz0]
    if case["scene"].get("z_unk") and case["scene"].get("z_runk"):
        auto_unk = yaw.autocorrelate(config, cats["unk"], cats["runk"], count_rr=case["count_rr"], **kw)
        out["auto_unk"] = [orc.corrfunc_state(cf) for cf in auto_unk]
        nz2 = [yaw.RedshiftData.from_corrfuncs(c, ref_corr=a, unk_corr=u) for c, a, u in zip(cross, auto, auto_unk)]
        out["nz2"] = [orc.sampled_state(x) for x in nz2]
        nz3 = [yaw.RedshiftData.from_corrfuncs(c, unk_corr=u) for c, u in zip(cross, auto_unk)]
        out["nz3"] = [orc.sampled_state(x) for x in nz3]
    # state must not survive between measurements: build, sample and release alternating
    # measurements a few times; every repetition must reproduce the first sampling bit for bit
    del cross, auto, hist
    rk_ = dict(rk)
    with IdentitySeam(case.get("identity", "fifo"), seed=case["scene"]["data_seed"]) as ident:
        _repeat_and_churn(case, config, cats, rk_, kw, out, ident)
    out["identity.recycled"] = ident.recycled


def _repeat_and_churn(case: dict, config, cats: dict, rk_: dict, kw: dict, out: dict, ident) -> None:
    import yaw

    first: dict = {}
    for rep in range(2):
        for label in ("cross", "auto"):
            if label == "cross":
                cfs = yaw.crosscorrelate(config, cats["ref"], cats["unk"], **rk_, **kw)
            else:
                cfs = yaw.autocorrelate(config, cats["ref"], cats["rref"], count_rr=case["count_rr"], **kw)
            st = [orc.sampled_state(cf.sample()) for cf in cfs]
            del cfs
            ident.collect()
            if label not in first:
                first[label] = st
            elif orc.states_equal(first[label], st) is not None:
                out.setdefault("repeat_mismatch", []).append(f"{label} repetition {rep}: {orc.states_equal(first[label], st)}")
    out["repeat.cross"] = first["cross"]
    out["repeat.auto"] = first["auto"]
    # the same for object identity: equal-shaped but different measurements are copied (deepcopy or
    # pickle round trip), sampled and released in turn, so that CPython hands the addresses of released
    # objects to the next copy; each copy must sample exactly like its original
    import pickle

    srcs = []
    for label in ("cross", "auto"):
        if label == "cross":
            cfs = yaw.crosscorrelate(config, cats["ref"], cats["unk"], **rk_, **kw)
        else:
            cfs = yaw.autocorrelate(config, cats["ref"], cats["rref"], count_rr=case["count_rr"], **kw)
        srcs.extend((f"{label}[{i}]", cf) for i, cf in enumerate(cfs))
        del cfs
    ref_states = {name: orc.sampled_state(pickle.loads(pickle.dumps(cf)).sample()) for name, cf in srcs}
    for cycle in range(CHURN_CYCLES):
        for j, (name, cf) in enumerate(srcs):
            twin = copy.deepcopy(cf) if (cycle + j) % 2 else pickle.loads(pickle.dumps(cf))
            st = orc.sampled_state(twin.sample())
            del twin
            ident.collect()
            msg = orc.states_equal(ref_states[name], st)
            if msg is not None:
                out.setdefault("repeat_mismatch", []).append(f"copy of {name}, cycle {cycle}: {msg}")
                break
        if out.get("repeat_mismatch"):
            break
    # a result object reflects its *current* content: counts of one patch pair are replaced through
    # the public setter after a first sampling; the second sampling must be the leave-one-out
    # statistic of the modified counts
    mutated = []
    for name, cf in srcs:
        twin = pickle.loads(pickle.dumps(cf))
        twin.sample()
        pc = twin.dd.counts
        i_, j_ = 0, pc.num_patches - 1
        pc.set_patch_pair(i_, j_, np.asarray(pc.counts[:, i_, j_]) + 1.0)
        mutated.append((name, orc.corrfunc_state(twin), orc.sampled_state(twin.sample())))
        del twin
    out["mutated"] = mutated
    # containers put together through the public constructors instead of by a measurement: the
    # normalisation of dd gets per-patch sums that differ between its two sides (also when the counts
    # are flagged as an autocorrelation); sampling must still be the leave-one-out sum of get_array()
    from yaw.correlation.corrfunc import CorrFunc
    from yaw.correlation.paircounts import NormalisedCounts, PatchedSumWeights

    handbuilt = []
    for name, cf in srcs:
        twin = pickle.loads(pickle.dumps(cf))
        sw = twin.dd.sum_weights
        factors = 1.0 + (np.arange(sw.sum_weights2.shape[1]) % 3)  # 1, 2, 3, 1, ...: exact products
        new_sw = PatchedSumWeights(sw.binning, np.array(sw.sum_weights1), np.array(sw.sum_weights2) * factors[None, :], auto=bool(sw.auto))
        built = CorrFunc(NormalisedCounts(twin.dd.counts, new_sw), dr=twin.dr, rd=twin.rd, rr=twin.rr)
        handbuilt.append((name, orc.corrfunc_state(built), orc.sampled_state(built.sample())))
        del twin, built
    out["handbuilt"] = handbuilt
    out["churn.ref"] = ref_states
    out["churn.first"] = {name: orc.sampled_state(cf.sample()) for name, cf in srcs}


def _cov_problems(samples: np.ndarray, cov: np.ndarray, err: np.ndarray, label: str) -> str | None:
    with np.errstate(all="ignore"):
        if not orc.allclose_nan(err, np.sqrt(np.diag(cov)), rtol=1e-12, atol=0):
            return f"{label}: error != sqrt(diag(covariance)) (error {np.asarray(err).tolist()}, diag {np.diag(cov).tolist()})"
    if not np.all(np.isfinite(samples)):
        # NaN/inf samples: the covariance formula itself is ill-defined (rows/columns of the
        # affected bins are NaN); error/diagonal consistency was checked above
        return None
    ref = orc.jackknife_cov(samples)
    if not orc.allclose_nan(cov, ref, rtol=1e-9, atol=1e-12 * max(1.0, float(np.abs(ref).max(initial=0.0)))):
        return f"{label}: covariance is not (N-1)/N * sum (x_k-mean)(x_k-mean)^T"
    if not np.allclose(cov, cov.T, rtol=1e-12, atol=0, equal_nan=True):
        return f"{label}: covariance not symmetric"
    tr = float(np.trace(cov))
    ev = np.linalg.eigvalsh((cov + cov.T) / 2)
    if ev.min() < -1e-9 * max(tr, 1e-300):
        return f"{label}: covariance not positive semi-definite (min eigenvalue {ev.min()}, trace {tr})"
    if not orc.allclose_nan(err, np.sqrt(np.diag(cov)), rtol=1e-12, atol=0):
        return f"{label}: error != sqrt(diag(covariance))"
    return None


def evaluate(case: dict, ref: dict, got: dict, cache_ref: dict) -> tuple[dict | None, str | None, dict]:
    probes: dict[str, int] = {}
    scene = case["scene"]

    def sig(entry, outcome, **extra):
        s = dict(property=PROP, entry=entry, outcome=outcome)
        s.update(extra)
        return s

    # (a) CorrFunc.sample(): leave-one-out of the sequential per-patch arrays
    for kind in ("cross", "auto"):
        for i, cfstate in enumerate(ref[kind]):
            try:
                data, samples = orc.loo_corrfunc(cfstate)
            except KeyError:
                continue
            probes["landy_szalay" if cfstate.get("rr") is not None else "davis_peebles"] = 1
            if np.isnan(data).any() or np.isnan(samples).any():
                probes["nan_bins"] = 1
            g = got[f"{kind}.sample"][i]
            # a leave-one-out normalisation that is *exactly* zero (weights are dyadic, so the
            # sums of weight products are exact) leaves nothing to normalise by: the sample
            # must not come out finite
            zero_norm = np.zeros(np.asarray(samples).shape, dtype=bool)
            present = {k_ for k_, st in cfstate.items() if st is not None}
            if "rr" in present:  # Landy-Szalay uses dd, dr, rr and rd when present
                used = present
            else:  # Davis-Peebles uses dd and ONE mixed term (rd if present, else dr)
                used = {"dd", "rd" if "rd" in present else "dr"}
            for k_, st in cfstate.items():
                if st is not None and k_ in used:
                    _, ws = orc.loo_sum(orc.weights_matrix(st["sw1"], st["sw2"], st["auto"]))
                    zero_norm |= ws == 0.0
            if case["scene"].get("w_kind", "dyadic") == "dyadic" and np.any(zero_norm & np.isfinite(np.asarray(g["samples"], dtype="f8"))):
                k_, b_ = np.argwhere(zero_norm & np.isfinite(np.asarray(g["samples"], dtype="f8")))[0]
                return (
                    sig(f"{kind}.sample", "finite_sample_for_zero_normalisation"),
                    f"{kind}[{i}].sample().samples[{k_},{b_}] = {np.asarray(g['samples'])[k_, b_]} although a leave-one-out "
                    "sum of weight products of that sample and bin is exactly zero",
                    probes,
                )
            if zero_norm.any():
                probes["exactly_zero_leave_one_out_normalisation"] = 1
            if not orc.close_where_ref_finite(g["data"], data):
                return sig(f"{kind}.sample", "value_wrong"), f"{kind}[{i}].sample().data {g['data']} != {data}", probes
            if not orc.close_where_ref_finite(g["samples"], samples):
                perm = _is_row_permutation(g["samples"], samples)
                return (
                    sig(f"{kind}.sample", "samples_permuted" if perm else "samples_wrong"),
                    f"{kind}[{i}].sample().samples differ from leave-one-out values (row permutation: {perm})",
                    probes,
                )
    for name, cfstate, g in got.get("mutated", []):
        try:
            data, samples = orc.loo_corrfunc(cfstate)
        except KeyError:
            continue
        probes["resampled_after_set_patch_pair"] = 1
        if not orc.close_where_ref_finite(g["data"], data) or not orc.close_where_ref_finite(g["samples"], samples):
            return (
                sig("sample_after_mutation", "stale_samples"),
                f"{name}: sample() after set_patch_pair() on its dd counts does not give the leave-one-out values of the modified counts",
                probes,
            )
    for name, cfstate, g in got.get("handbuilt", []):
        try:
            data, samples = orc.loo_corrfunc(cfstate)
        except KeyError:
            continue
        probes["handbuilt_containers"] = 1
        if not orc.close_where_ref_finite(g["data"], data) or not orc.close_where_ref_finite(g["samples"], samples):
            return (
                sig("sample_of_handbuilt_container", "samples_wrong"),
                f"{name}: sample() of a CorrFunc assembled through the constructors (dd normalisation with different per-patch sums on its two sides, auto={cfstate['dd']['auto']}) is not the leave-one-out statistic of its arrays",
                probes,
            )
    if got.get("identity.recycled"):
        probes["identities_recycled"] = 1
    # (a') repeated build/sample/release cycles reproduce the first sampling, which is the one checked above
    if got.get("repeat_mismatch"):
        return sig("repeated_measurement", "result_depends_on_earlier_measurements"), "; ".join(got["repeat_mismatch"][:3]), probes
    for kind in ("cross", "auto"):
        msg = orc.states_equal(got[f"{kind}.sample"], got[f"repeat.{kind}"])
        if msg:
            return sig("repeated_measurement", "result_depends_on_earlier_measurements"), f"{kind}: sampling after release of earlier measurements differs: {msg}", probes
    for kind in ("cross", "auto"):
        for i, st0 in enumerate(got[f"{kind}.sample"]):
            for which in ("churn.ref", "churn.first"):
                msg = orc.states_equal(st0, got[which][f"{kind}[{i}]"])
                if msg:
                    return sig("repeated_measurement", "result_depends_on_earlier_measurements"), f"{which} {kind}[{i}]: {msg}", probes
    # (b) RedshiftData
    dz = np.diff(np.asarray(scene["edges"], dtype="f8"))
    for i, (c, a) in enumerate(zip(ref["cross"], ref["auto"])):
        try:
            cd, cs = orc.loo_corrfunc(c)
            ad, as_ = orc.loo_corrfunc(a)
        except KeyError:
            continue
        with np.errstate(all="ignore"):
            nz_d = cd / np.sqrt(dz**2 * ad)
            nz_s = cs / np.sqrt(dz[None, :] ** 2 * as_)
            nz0_d = cd / np.sqrt(dz**2)
            nz0_s = cs / np.sqrt(dz[None, :] ** 2)
        probes["redshiftdata_with_auto"] = 1
        combos = [("nz", nz_d, nz_s), ("nz0", nz0_d, nz0_s)]
        ud = us = None
        if "auto_unk" in ref:
            try:
                ud, us = orc.loo_corrfunc(ref["auto_unk"][i])
            except KeyError:
                ud = us = None
            if ud is not None:
                probes["redshiftdata_with_unk_auto"] = 1
                with np.errstate(all="ignore"):
                    combos.append(("nz2", cd / np.sqrt(dz**2 * ad * ud), cs / np.sqrt(dz[None, :] ** 2 * as_ * us)))
                    combos.append(("nz3", cd / np.sqrt(dz**2 * ud), cs / np.sqrt(dz[None, :] ** 2 * us)))
        # an autocorrelation amplitude that is zero up to rounding noise (1e-16) makes the
        # quotient ill-conditioned: different summation orders give different garbage.
        # Those elements are excluded from the comparison (not a defect of either side).
        def well(x):  # finite and not zero-up-to-rounding
            return np.isfinite(x) & (np.abs(x) > 1e-6)

        ok_d, ok_s = well(ad), well(as_)
        if ud is not None:
            ok_d2, ok_s2 = ok_d & well(ud), ok_s & well(us)
            ok_d3, ok_s3 = well(ud), well(us)
        masks = dict(nz=(ok_d, ok_s), nz0=(np.ones_like(ok_d), np.ones_like(ok_s)))
        if len(combos) > 2:
            masks["nz2"] = (ok_d2, ok_s2)
            masks["nz3"] = (ok_d3, ok_s3)
        for name, d_, s_ in combos:
            g = got[name][i]
            md, ms = masks[name]
            gd, gs = np.where(md, g["data"], 0.0), np.where(ms, g["samples"], 0.0)
            d_, s_ = np.where(md, d_, 0.0), np.where(ms, s_, 0.0)
            if not ms.all() or not md.all():
                probes["ill_conditioned_elements_masked"] = 1
            if not orc.close_where_ref_finite(gd, d_) or not orc.close_where_ref_finite(gs, s_):
                return sig("RedshiftData.from_corrfuncs", "samples_wrong", which=name), f"{name}[{i}] differs from w_sp/sqrt(dz^2 w_ss w_pp) applied to leave-one-out samples", probes
    # (c) HistData: independent per-patch histograms from the raw cache
    counts = ref["hist.per_patch"]
    total = counts.sum(axis=0)
    loo = np.array([np.delete(counts, k, axis=0).sum(axis=0) for k in range(len(counts))])
    g = got["hist"]
    if not orc.allclose_nan(g["data"], total, rtol=1e-12):
        return sig("HistData.from_catalog", "value_wrong"), f"hist.data {g['data']} != {total}", probes
    if not orc.allclose_nan(g["samples"], loo, rtol=1e-12):
        perm = _is_row_permutation(g["samples"], loo)
        return (
            sig("HistData.from_catalog", "samples_permuted" if perm else "samples_wrong"),
            f"hist.samples differ from leave-one-out sums (row permutation: {perm}): {np.asarray(g['samples']).tolist()} vs {loo.tolist()}",
            probes,
        )
    # (c') the same on weights spanning many orders of magnitude: the leave-one-out sample of the
    # dominant patch is a sum of small numbers, computed here by exact summation of the others
    if "hist.wide" in got and "hist.wide.per_patch" in ref:
        import math

        counts = ref["hist.wide.per_patch"]
        npatch, nb = counts.shape
        total = np.array([math.fsum(counts[:, b]) for b in range(nb)])
        loo = np.array([[math.fsum(np.delete(counts[:, b], k)) for b in range(nb)] for k in range(npatch)])
        g = got["hist.wide"]
        probes["wide_dynamic_range_weights"] = 1
        if not orc.allclose_nan(g["data"], total, rtol=1e-11):
            return sig("HistData.from_catalog", "value_wrong", weights="wide"), f"hist(wide weights).data {g['data']} != {total}", probes
        if not orc.allclose_nan(g["samples"], loo, rtol=1e-11):
            bad = np.argwhere(~np.isclose(np.asarray(g["samples"], dtype="f8"), loo, rtol=1e-11, atol=0, equal_nan=True))
            k_, b_ = bad[0] if len(bad) else (0, 0)
            return (
                sig("HistData.from_catalog", "samples_wrong", weights="wide"),
                f"hist(wide weights).samples[{k_},{b_}] = {np.asarray(g['samples'])[k_, b_]!r}, the sum over the other patches is {loo[k_, b_]!r} (total {total[b_]!r})",
                probes,
            )
    # (c'') hundreds of patches
    if "hist.many" in got and "hist.many.per_patch" in ref:
        import math

        counts = ref["hist.many.per_patch"]
        npatch_, nb_ = counts.shape
        total = np.array([math.fsum(counts[:, b]) for b in range(nb_)])
        loo = np.array([[math.fsum(np.delete(counts[:, b], k)) for b in range(nb_)] for k in range(npatch_)])
        g = got["hist.many"]
        probes["hundreds_of_patches"] = 1
        if scene.get("many_flat"):
            probes["samples_with_large_common_value"] = 1
        if not orc.allclose_nan(g["data"], total, rtol=1e-12) or np.asarray(g["samples"]).shape != loo.shape or not orc.allclose_nan(g["samples"], loo, rtol=1e-12):
            bad = "shape" if np.asarray(g["samples"]).shape != loo.shape else "-"
            if bad == "-":
                rows_ = np.argwhere(~np.isclose(np.asarray(g["samples"], dtype="f8"), loo, rtol=1e-12, atol=0, equal_nan=True).all(axis=1))
                bad = int(rows_[0][0]) if len(rows_) else "data"
            return (
                sig("HistData.from_catalog", "samples_wrong", patches="many"),
                f"histogram of a catalog with {len(counts)} patches: samples differ from the leave-one-out sums (first bad sample: {bad})",
                probes,
            )
    if "hist.many.cov" in got:
        msg = _cov_problems(got["hist.many"]["samples"], got["hist.many.cov"]["cov"], got["hist.many.cov"]["err"], "hist(many patches)")
        if msg:
            return sig("covariance", "covariance_wrong", patches="many"), msg, probes
    # (d) covariance
    for i, st in enumerate(got["cross.sample"]):
        msg = _cov_problems(st["samples"], got["cross.cov"][i]["cov"], got["cross.cov"][i]["err"], f"cross[{i}]")
        if msg:
            return sig("covariance", "covariance_wrong"), msg, probes
    msg = _cov_problems(got["hist"]["samples"], got["hist.cov"]["cov"], got["hist.cov"]["err"], "hist")
    if msg:
        return sig("covariance", "covariance_wrong"), msg, probes
    return None, None, probes


def _is_row_permutation(a, b) -> bool:
    a, b = np.asarray(a, dtype="f8"), np.asarray(b, dtype="f8")
    if a.shape != b.shape or a.ndim != 2:
        return False
    srt = lambda x: x[np.lexsort(np.nan_to_num(x, nan=-1e300).T[::-1])]  # noqa: E731
    return bool(np.allclose(srt(a), srt(b), rtol=1e-9, atol=1e-12, equal_nan=True))


def run_case(case: dict) -> dict:
    import hashlib

    from sim import fakemp

    root = tempfile.mkdtemp(prefix="c03-", dir=scenes.wl.scratch_root())
    subs = []
    try:
        tpl = os.path.join(root, "tpl")
        os.makedirs(tpl)
        built = scenes.build_scene(case["scene"], tpl)
        if built is None:
            return dict(verdict="discard", detail="degenerate scene (empty centre/bin)", runs=0)
        cache_ref = orc.read_cache(os.path.join(tpl, "ref"))
        ref: dict = {}
        try:
            with scenes.sequential_mode():
                _workload(case, scenes.copy_scene(tpl, os.path.join(root, "ref")), 1, ref)
        except Exception as err:  # noqa: BLE001
            return dict(verdict="discard", detail=f"reference raises {type(err).__name__}", runs=0)
        shutil.rmtree(os.path.join(root, "ref"))
        probes: dict[str, int] = {}
        steps = 0
        violation = None
        head = None
        for j, var in enumerate(case["variants"]):
            simroot = os.path.join(root, f"sim{j}")
            paths = scenes.copy_scene(tpl, simroot)
            got: dict = {}
            sim = Sim(
                var.get("sched_seed", 0),
                choices=case.get("schedule") if len(case["variants"]) == 1 else None,
                policy=var.get("policy", "prng"),
                fs_root=simroot,
                cores=var["workers"],
                step_cap=100_000,
            )
            with fakemp.patched(sim):
                verdict = sim.run(_workload, case, paths, None, got)
            steps += sim.steps
            for k, v in sim.probes.items():
                probes[k] = probes.get(k, 0) + v
            sig = detail = None
            if verdict != Verdict.COMPLETE:
                sig, detail = dict(property=PROP, entry="-", outcome=verdict), f"{verdict}: {sim.blocked_report}"
            elif sim.main.exc is not None:
                sig = dict(property=PROP, entry="-", outcome="raises", exc=type(sim.main.exc).__name__)
                detail = f"parallel run raised {sim.main.exc!r}\n{sim.main.tb[-1200:]}"
            else:
                sig, detail, pr = evaluate(case, ref, got, cache_ref)
                for k, v in pr.items():
                    probes[k] = probes.get(k, 0) + v
            if head is None:
                head = sim.head(20)
            subs.append(dict(digest=sim.digest(), nontrivial=sim.multi_choice_steps > 0, steps=sim.steps))
            choices, tail = list(sim.choices), sim.tail(20)
            sim.cleanup()
            shutil.rmtree(simroot, ignore_errors=True)
            if sig is not None:
                violation = dict(signature=sig, detail=f"W={var['workers']} policy={var.get('policy')}: {detail}", focus=j, choices=choices, tail=tail)
                break
        h = hashlib.sha256()
        for s in subs:
            h.update(s["digest"].encode())
        res = dict(
            verdict="ok" if violation is None else "violation",
            subs=subs, digest=h.hexdigest(), nontrivial=any(s["nontrivial"] for s in subs),
            steps=steps, probes=probes, head=head,
        )
        if violation is not None:
            res.update(violation)
        return res
    finally:
        shutil.rmtree(root, ignore_errors=True)
