"""
C18 -- input is consumed in bounded chunks, each record once per pass.
I/O-trace monitor at the source seam inside E1 creation runs: *who* reads is
observed under every worker count (only the main process may touch the source;
pool workers and the writer process receive pickled chunks).
"""

from __future__ import annotations

import copy
import os
import shutil
import tempfile

from sim import creation
from sim import workloads as wl
from sim.core import Prng, Verdict, current_sim, current_task, mix

PROP = "C18"
ENGINE = "fakemp"
LEVEL = "exploration"
BUDGET = dict(quick=90.0, thorough=1200.0)
BATCH = 25
RULE = (
    "one evaluation = one simulated catalog creation from an instrumented source: data-frame-like object "
    "(slice requests), HDF5 (h5py.Dataset.__getitem__ slices per column), Parquet (row groups read), FITS "
    "(only the yielded chunk lengths are observable) x input length 1-300 (biased to m*chunk+{-1,0,1}) x "
    "chunk size x patch mode (generated centres = one extra pass) x workers 1-8 x schedule.  Trace model: "
    "per pass consecutive non-overlapping slices [0,c),[c,2c),... covering [0,n), none longer than c, every "
    "yielded chunk <= c, passes = 1 (+1 iff centres are generated), only simulated process 'main' reads.  "
    "distinct_nontrivial = distinct (event-log digest, trace digest) among runs with >= 2 chunks."
)
ASSUMPTIONS = [
    "FITS table access happens inside astropy's memmap and is not observable at a Python seam; for FITS only "
    "len(chunk) <= chunksize and complete consecutive coverage of the yielded chunks are checked",
    "Parquet: the row-group cache size is not observed, only that each group is read once per pass in order",
]
PROBES = ["recreation_over_existing_cache", "parquet_nonuniform_row_groups", "abandoned_preview_pass", "parquet_groups_aligned_with_chunks", "two_passes", "tail_chunk_shorter", "exact_multiple", "single_chunk", "parquet_group_straddles_chunk", "parallel_mode"]
REAL_VS_STUB = dict(
    real="yaw readers, DataChunk, h5py, pyarrow, astropy.io.fits, pandas",
    stub="multiprocessing (sim.fakemp); trace taps: TracedFrame, h5py.Dataset.__getitem__, ParquetFile.read_row_group, DataChunkReader.__next__ wrappers",
)


def gen_case(prng: Prng, tier: str) -> dict:
    nmax = 120 if tier == "quick" else 300
    source = prng.choice(["traced", "traced", "hdf5", "parquet", "fits"])
    mode = prng.choice(["apply", "divide", "create"])
    chunksize = prng.choice([None, 1, 2, 3, 5, 7, 16, 33, prng.randint(1, nmax + 3)])
    if chunksize is None or prng.chance(1, 3):
        n = prng.randint(1, nmax)
    else:
        m = prng.randint(1, max(1, min(12, nmax // chunksize)))
        n = max(1, min(nmax, m * chunksize + prng.choice([-1, 0, 0, 1])))
    k = prng.randint(1, 5)
    if mode == "create":
        n = max(n, 10 * k + 5)
    extra = {}
    if source in ("traced", "hdf5") and mode != "create" and prng.chance(1, 5):
        extra["preview_chunks"] = prng.randint(1, 3)  # abandoned partial pass before the creation
    if source == "parquet" and chunksize is not None and prng.chance(1, 2):
        extra["pq_rowgroup"] = prng.choice([chunksize, max(1, chunksize // 2), 2 * chunksize, 3 * chunksize])
    elif source == "parquet" and chunksize is not None and prng.chance(1, 2):
        h = max(1, chunksize // 2)
        extra["pq_rowgroup"] = [prng.choice([chunksize, 2 * chunksize, chunksize + 1]), h, h, max(1, h - 1), h]
    if prng.chance(1, 6):
        extra["prior"], extra["overwrite"] = "catalog_reopened", True  # re-creation over an existing cache
    if source == "fits" and prng.chance(1, 2):
        extra["fits_hdu"] = prng.choice([2, 3])  # the table sits behind decoy extensions
    return dict(
        **extra,
        prop=PROP,
        data=dict(data_seed=prng.below(1 << 30), n=n, region=prng.choice(["box", "wide"]),
                  has_w=prng.chance(1, 2), has_z=prng.chance(1, 2)),
        source=source,
        patch=dict(mode=mode, k=k, center_seed=prng.below(1 << 20), pid_dtype="i8",
                   probe_size=prng.choice([None, 10 * k, n])),
        chunksize=chunksize,
        workers=prng.choice([1, 2, 3, 5, 8]),
        use_none=prng.chance(1, 4),
        progress=prng.chance(1, 4),
        policy=prng.choice(["prng", "prng", "first", "last", "rr"]),
        sched_seed=prng.below(1 << 40),
    )


def gen_cases(tier: str, verif_seed: int, runs: int | None = None) -> list[dict]:
    n = runs if runs is not None else (800 if tier == "quick" else 40000)
    out = []
    for i in range(n):
        c = gen_case(Prng(mix(verif_seed, PROP, i)), tier)
        if c["patch"]["probe_size"] is None:
            c["patch"].pop("probe_size")
        out.append(c)
    return out


def case_size(case: dict) -> int:
    return case["data"]["n"] + 10 * case["workers"] + (0 if case["source"] == "traced" else 25)


def shrinks(case: dict):
    d = case["data"]
    for f in (0.5, 0.8):
        m = max(1, int(d["n"] * f))
        if m < d["n"] and (case["patch"]["mode"] != "create" or m >= 10 * case["patch"]["k"] + 5):
            c = copy.deepcopy(case)
            c["data"]["n"] = m
            yield c
    if case["workers"] > 1:
        c = copy.deepcopy(case)
        c["workers"] = 1
        yield c
    if case["source"] != "traced":
        c = copy.deepcopy(case)
        c["source"] = "traced"
        yield c
    if case["patch"]["mode"] == "create":
        c = copy.deepcopy(case)
        c["patch"]["mode"] = "apply"
        yield c
    for key in ("has_w", "has_z"):
        if d.get(key):
            c = copy.deepcopy(case)
            c["data"][key] = False
            yield c
    for key in ("progress", "use_none"):
        if case.get(key):
            c = copy.deepcopy(case)
            c[key] = False
            yield c


class _ChunkTap:
    """Logs the length of every chunk a reader yields on the reading process."""

    def __init__(self, trace: list) -> None:
        self.trace = trace

    def __enter__(self):
        from yaw.catalog import readers

        trace = self.trace
        self.cls = readers.DataChunkReader
        self.orig = self.cls.__next__

        orig = self.orig

        def tapped(reader):
            chunk = orig(reader)
            t = current_task()
            if current_sim() is not None and chunk is not None:
                trace.append((t.name if t else "-", "chunk", len(chunk), int(reader.chunksize)))
            return chunk

        self.cls.__next__ = tapped
        return self

    def __exit__(self, *exc):
        self.cls.__next__ = self.orig


def _sig(case, outcome, **extra):
    s = dict(property=PROP, source=case["source"], mode="seq" if case["workers"] == 1 else "mp", outcome=outcome)
    s.update(extra)
    return s


def check_trace(case: dict, trace: list) -> tuple[dict | None, str | None, dict]:
    probes: dict[str, int] = {}
    n = case["data"]["n"]
    src = case["source"]
    cs_req = case.get("chunksize") or 16_777_216
    cs = cs_req  # the file readers' min(n, chunksize) is overridden by DataReader.__init__
    nchunks = -(-n // cs)
    passes_expected = 2 if case["patch"]["mode"] == "create" else 1
    preview = min(int(case.get("preview_chunks") or 0), nchunks)
    if preview:
        probes["abandoned_preview_pass"] = 1
        # the abandoned pass: its chunks come first in the trace and are checked like a prefix of a pass
        pchunks = [e for e in trace if e[1] == "chunk"][:preview]
        if [e[2] for e in pchunks] != [min(cs, n - i * cs) for i in range(preview)]:
            return _sig(case, "trace_violation", what="preview_pass"), f"preview chunks {[e[2] for e in pchunks]}", probes
        # drop the preview part of the trace: `preview` chunk events and the source requests before the last of them
        kept, seen = [], 0
        for e in trace:
            if seen < preview:
                if e[1] == "chunk":
                    seen += 1
                continue
            kept.append(e)
        trace = kept
    if passes_expected == 2:
        probes["two_passes"] = 1
    if n > cs and n % cs:
        probes["tail_chunk_shorter"] = 1
    if n >= cs and n % cs == 0:
        probes["exact_multiple"] = 1
    if nchunks == 1:
        probes["single_chunk"] = 1
    if case["workers"] > 1:
        probes["parallel_mode"] = 1
    if case.get("prior"):
        probes["recreation_over_existing_cache"] = 1

    who = sorted({e[0] for e in trace})
    if who not in ([], ["main"]):
        return _sig(case, "trace_violation", what="reader_not_main"), f"source touched by {who}", probes

    # -- yielded chunks (all sources)
    chunks = [e for e in trace if e[1] == "chunk"]
    lens = [e[2] for e in chunks]
    if any(ln > cs for ln in lens):
        return _sig(case, "trace_violation", what="chunk_too_long"), f"chunk lengths {lens} exceed chunk size {cs}", probes
    if sum(lens) != passes_expected * n:
        return (
            _sig(case, "trace_violation", what="records_per_pass"),
            f"yielded {sum(lens)} records in total, expected {passes_expected} pass(es) over {n}; lengths {lens[:40]}",
            probes,
        )
    per_pass = lens[: len(lens) // passes_expected] if passes_expected else lens
    if len(lens) != passes_expected * nchunks or any(ln != cs for ln in per_pass[:-1]):
        return (
            _sig(case, "trace_violation", what="chunk_lengths"),
            f"chunk lengths {lens[:40]} are not {nchunks} chunk(s) of {cs} (last shorter) per pass",
            probes,
        )

    # -- requests to the source
    if src == "traced":
        sl = [e for e in trace if e[1] != "chunk" and e[1] != "column"]
        cols = [e for e in trace if e[1] == "column"]
        if cols:
            return _sig(case, "trace_violation", what="whole_column"), f"whole column requested: {cols[:3]}", probes
        if len(sl) != passes_expected * nchunks:
            return (
                _sig(case, "trace_violation", what="slice_count"),
                f"{len(sl)} slice requests, expected {passes_expected} x {nchunks}: {sl[:12]}",
                probes,
            )
        for p in range(passes_expected):
            pos = 0
            for (_, start, stop, step) in sl[p * nchunks : (p + 1) * nchunks]:
                if step not in (None, 1) or start != pos or stop is None or stop - start > cs or stop <= start:
                    return (
                        _sig(case, "trace_violation", what="slice_bounds"),
                        f"pass {p}: slice [{start}:{stop}:{step}] at position {pos}, chunk size {cs}",
                        probes,
                    )
                pos = stop
            if pos < n:
                return _sig(case, "trace_violation", what="coverage"), f"pass {p} stops at {pos} < {n}", probes
    elif src == "hdf5":
        by_col: dict[str, list] = {}
        for e in trace:
            if isinstance(e[1], str) and e[1].startswith("h5:"):
                by_col.setdefault(e[1], []).append((e[2], e[3]))
        expect_cols = 2 + int(case["data"].get("has_w", False)) + int(case["data"].get("has_z", False)) + int(case["patch"]["mode"] == "divide")
        if len(by_col) != expect_cols:
            return _sig(case, "trace_violation", what="columns"), f"columns sliced: {sorted(by_col)}", probes
        for col, sl in by_col.items():
            if len(sl) != passes_expected * nchunks:
                return (
                    _sig(case, "trace_violation", what="slice_count"),
                    f"{col}: {len(sl)} slice requests, expected {passes_expected} x {nchunks}",
                    probes,
                )
            for p in range(passes_expected):
                pos = 0
                for start, stop in sl[p * nchunks : (p + 1) * nchunks]:
                    if start != pos or stop is None or stop - start > cs or stop <= start:
                        return (
                            _sig(case, "trace_violation", what="slice_bounds"),
                            f"{col} pass {p}: slice [{start}:{stop}] at position {pos}, chunk size {cs}",
                            probes,
                        )
                    pos = stop
                if pos < n:
                    return _sig(case, "trace_violation", what="coverage"), f"{col} pass {p} stops at {pos} < {n}", probes
    elif src == "parquet":
        groups = [e[2] for e in trace if e[1] == "pq:group"]
        rg = wl.parquet_row_group_size(n, case["data"]["data_seed"], case.get("pq_rowgroup"))
        if case.get("pq_rowgroup"):
            probes["parquet_groups_aligned_with_chunks"] = 1
        ngroups = -(-n // rg)
        if isinstance(case.get("pq_rowgroup"), list):
            probes["parquet_nonuniform_row_groups"] = 1
            sizes, pos, ngroups = list(case["pq_rowgroup"]), 0, 0
            while pos < n:
                pos += max(1, int(sizes.pop(0) if sizes else case["pq_rowgroup"][-1]))
                ngroups += 1
        if rg % cs and cs % rg:
            probes["parquet_group_straddles_chunk"] = 1
        real = [g for g in groups if g < ngroups]
        if real != list(range(ngroups)) * passes_expected:
            return (
                _sig(case, "trace_violation", what="row_groups"),
                f"row groups read: {groups[:40]}; expected each of 0..{ngroups - 1} once per pass ({passes_expected})",
                probes,
            )
    return None, None, probes


def run_case(case: dict) -> dict:
    import hashlib

    root = tempfile.mkdtemp(prefix="c18-", dir=wl.scratch_root())
    try:
        with _ChunkTap_holder() as holder:
            o = creation.run_creation(case, os.path.join(root, "a"), trace_hook=holder)
        try:
            trace = o["trace"]
            if o.get("degenerate_centres"):
                return dict(verdict="discard", detail="k-means produced a non-finite centre", digest=o["digest"], steps=o["steps"])
            if o["verdict"] != Verdict.COMPLETE or o["outcome"] != "returned":
                return dict(verdict="discard", detail=f"creation did not return ({o['verdict']}/{o['outcome']} {o.get('exc_type')}): C02/C09 territory",
                            digest=o["digest"], steps=o["steps"])
            sig, detail, probes = check_trace(case, trace)
            tdig = hashlib.sha256(repr(trace).encode()).hexdigest()[:16]
            res = dict(
                verdict="ok" if sig is None else "violation",
                digest=o["digest"] + ":" + tdig,
                nontrivial=len([e for e in trace if e[1] == "chunk"]) >= 2,
                steps=o["steps"],
                probes=probes,
                head=[list(map(str, e)) for e in trace[:12]],
                choices=o["choices"],
            )
            if sig is not None:
                res.update(signature=sig, detail=detail, tail=[list(map(str, e)) for e in trace[-30:]])
            return res
        finally:
            creation.finish(o)
    finally:
        shutil.rmtree(root, ignore_errors=True)


class _ChunkTap_holder:
    """Gives run_creation a factory for the chunk tap bound to its trace list."""

    def __enter__(self):
        return lambda trace: _ChunkTap(trace)

    def __exit__(self, *exc):
        return False
