"""
C08 -- a crash never leaves a cache that is silently wrong.

Engine E2 (crashfs): the LD_PRELOAD shim numbers every mutating libc-level
file-system operation of a cache-writing workload; for each workload the crash
space is *enumerated* (a fault-free run counts N operations, then every
k in 1..N is run with ``_exit(137)`` before operation k).  What is sampled by
seed is the workload (sizes, patch count, chunking, prior state, directory
listing order).  After every crash a fresh process performs the next use.
"""

from __future__ import annotations

import copy
import hashlib
import os
import shutil
import tempfile

import numpy as np

from sim import crashfs
from sim import oracles as orc
from sim import workloads as wl
from sim.core import Prng, mix

PROP = "C08"
ENGINE = "crashfs"
LEVEL = "fault_enumeration"
BUDGET = dict(quick=110.0, thorough=1500.0)
BATCH = 1
CASE_TIMEOUT = 600.0
SCHEDULED = False
EXHAUSTIVE = False  # exhaustive per workload (all crash points), workloads are sampled
RULE = (
    "cases = seeded cache-writing workloads {create catalog in an empty location; create with overwrite over a "
    "valid catalog (with/without trees and metadata); first open of a cache without meta.yml; build_trees "
    "fresh; rebuild for another binning (same number of bins / other closed side / binned<->unbinned / forced "
    "with equal binning); CorrFunc.to_file fresh and over an older file; CorrData.to_files fresh and over older "
    "files} x sizes, patch count, chunk size, directory listing order.  For each case EVERY crash index "
    "1..N of its libc-level operation trace (open/creat/write/pwrite/fwrite/fflush/fclose/mkdir/unlink/rmdir/"
    "rename/ftruncate under the sandbox) is one evaluation: the workload child is killed (_exit(137)) before "
    "operation k, then a fresh process performs the next use (Catalog(cache), build_trees for the new and the "
    "prior binning, from_file/from_files).  Verdicts: ERROR, AS_NEVER_STARTED, AS_COMPLETED are fine, "
    "SILENT_WRONG is a violation.  distinct_nontrivial = distinct (workload, surviving-tree hash) pairs among "
    "crash cases whose surviving tree differs from both the prior and the completed state."
)
ASSUMPTIONS = [
    "'the process dies': user-space buffers are lost, everything already handed to the kernel survives; power loss "
    "(fsync ordering) is not modelled",
    "glibc-internal write(2) calls of stdio are not interposable: fwrite/fflush/fclose are the crash points (the states "
    "after each of them are exactly the states reachable between the internal syscalls)",
    "library in sequential mode (_num_processes -> 1)",
]
PROBES = ["main_process_killed_alone", "parallel_crash_case", "crash_in_rmtree", "crash_between_trees_and_binning", "crash_after_create_before_write", "crash_in_hdf5_write", "prior_with_trees"]
REAL_VS_STUB = dict(
    real="all of yaw, numpy tofile, pickle, PyYAML, h5py/HDF5, the kernel file system (tmpfs), real process death; the next use runs in a real, pristine process (child of a zygote forked before the case touches the library)",
    stub="fault injection by LD_PRELOAD (crashfs/shim.c); directory listing order (seeded permutation of os.scandir)",
)

WORKLOADS = ["create", "overwrite", "first_open", "build_trees", "rebuild", "corrfunc_file", "corrdata_files"]
# the same cache-writing workloads in *parallel* library mode, under the E1 scheduler: the whole
# simulated process group (main, pool workers, writer process) is killed at scheduler step k
PAR_WORKLOADS = ["par_create", "par_overwrite", "par_first_open", "par_rebuild"]
REBUILD_VARIANTS = ["same_nbins", "other_closed", "to_unbinned", "to_binned", "force_equal", "fewer_bins"]


def gen_case(prng: Prng, tier: str, i: int) -> dict:
    kinds = WORKLOADS + PAR_WORKLOADS
    workload = kinds[i % len(kinds)]
    base = workload[4:] if workload.startswith("par_") else workload
    if workload.startswith("par_"):
        return dict(
            prop=PROP,
            workload=workload,
            data_seed=prng.below(1 << 30),
            n_new=prng.randint(12, 30),
            n_old=prng.randint(10, 24),
            k=prng.randint(2, 3),
            chunksize=prng.choice([None, 9]),
            variant=prng.choice(["same_nbins", "other_closed", "to_unbinned", "fewer_bins"]) if base == "rebuild" else "apply",
            prior=prng.choice(["plain", "with_trees"]) if base == "overwrite" else None,
            scandir_seed=0,
            workers=prng.choice([2, 3]),
            sched_seed=prng.below(1 << 40),
            policy=prng.choice(["prng", "prng", "last"]),
            # who dies: the whole process group, or the main process alone (its children are
            # orphaned, keep running and may notice -- timed waits then outlast their timeouts)
            kill_mode="main" if (i // len(kinds)) % 2 and base in ("create", "overwrite") else "all",
        )
    return dict(
        prop=PROP,
        workload=workload,
        data_seed=prng.below(1 << 30),
        n_new=prng.randint(12, 40),
        n_old=prng.randint(10, 30),
        k=prng.randint(2, 3) if tier == "quick" else prng.randint(2, 4),
        chunksize=prng.choice([None, 7, 16]),
        variant=prng.choice(REBUILD_VARIANTS) if workload == "rebuild" else (
            prng.choice(["apply", "buffered", "divide", "random"]) if workload in ("create", "overwrite") else (
                prng.choice(["corrdata", "histdata"]) if workload == "corrdata_files" else None)),
        prior=prng.choice(["plain", "with_trees", "with_trees"]) if workload == "overwrite" else (
            prng.choice(["none", "older"]) if workload in ("corrfunc_file", "corrdata_files") else None),
        scandir_seed=prng.below(1 << 20),
    )


def gen_cases(tier: str, verif_seed: int, runs: int | None = None) -> list[dict]:
    n = runs if runs is not None else (66 if tier == "quick" else 3300)
    return [gen_case(Prng(mix(verif_seed, PROP, i)), tier, i) for i in range(n)]


def case_size(case: dict) -> int:
    return case["n_new"] + case["n_old"] + 20 * case["k"]


def shrinks(case: dict):
    if case.get("_focus") is not None and "crash_at" not in case:
        c = copy.deepcopy(case)
        c["crash_at"] = case["_focus"]
        c.pop("_focus", None)
        yield c
    for key in ("n_new", "n_old"):
        v = max(6, case[key] // 2)
        if v < case[key]:
            c = copy.deepcopy(case)
            c[key] = v
            c.pop("crash_at", None)
            yield c
    if case["k"] > 2:
        c = copy.deepcopy(case)
        c["k"] -= 1
        c.pop("crash_at", None)
        yield c
    if case.get("chunksize") is not None:
        c = copy.deepcopy(case)
        c["chunksize"] = None
        c.pop("crash_at", None)
        yield c


# ----------------------------------------------------------------- scenario
EDGES_A = [0.1, 0.5, 1.0]
EDGES_B = [0.1, 0.35, 1.0]
EDGES_C = [0.1, 1.0]


def _seq():
    from sim.scenes import sequential_mode

    return sequential_mode()


def _records(seed: int, n: int, edges) -> dict:
    return wl.gen_records(seed, n, has_w=True, has_z=True, zedges=edges, zpad=-0.005, edge_frac=0.1)


def _centers(case: dict, *recs) -> np.ndarray:
    c = wl.gen_centers(case["data_seed"] + 11, case["k"], "box")
    for _ in range(3):
        for r in recs:
            c = wl.ensure_nonempty_centers(r, c)
    return c


def _random_generator(case: dict):
    import yaw

    attr = wl.gen_records(case["data_seed"] + 3, 19, has_w=True, has_z=True, zedges=EDGES_A, zpad=-0.005, edge_frac=0.0)
    return yaw.randoms.BoxRandoms(10.0, 30.0, -10.0, 10.0, weights=attr["w"], redshifts=attr["z"], seed=case["data_seed"] % 99991)


def _random_records(case: dict, n: int, chunksize) -> dict:
    gen = _random_generator(case)
    gen.reseed()
    cs = chunksize or 16_777_216
    chunks, left = [], n
    while left > 0:
        chunks.append(gen(min(cs, left)))
        left -= min(cs, left)
    data = np.concatenate(chunks)
    return dict(ra=np.rad2deg(data["ra"]), dec=np.rad2deg(data["dec"]), w=data["weights"], z=data["redshifts"], _rad=data)


def _make_catalog(path: str, rec: dict, centers: np.ndarray, chunksize=None, overwrite=False, variant="apply", case=None, max_workers=1):
    import yaw

    if variant == "divide":
        radec = np.deg2rad(np.column_stack([rec["ra"], rec["dec"]]))
        ids, _ = wl.nearest_center(radec, centers)
        return yaw.Catalog.from_dataframe(
            path, wl.make_dataframe(rec, ids.astype("i8")), chunksize=chunksize, overwrite=overwrite, max_workers=max_workers,
            **wl.column_kwargs(rec, patch_name=True),
        )
    if variant == "buffered":
        # the public write_patches with a finite writer buffer (Catalog.from_* pins -1)
        import yaw.catalog.catalog as ycat
        from yaw.catalog.readers import DataFrameReader

        reader = DataFrameReader(wl.make_dataframe(rec), chunksize=chunksize, **wl.column_kwargs(rec))
        ycat.write_patches(
            path, reader, yaw.AngularCoordinates(centers), overwrite=overwrite, progress=False,
            max_workers=1, buffersize=int(case["data_seed"]) % 9 + 3,
        )
        return yaw.Catalog(path, max_workers=1)
    if variant == "random":
        return yaw.Catalog.from_random(
            path, _random_generator(case), len(rec["ra"]), patch_centers=yaw.AngularCoordinates(centers),
            chunksize=chunksize, overwrite=overwrite, max_workers=max_workers,
        )
    return yaw.Catalog.from_dataframe(
        path, wl.make_dataframe(rec), patch_centers=yaw.AngularCoordinates(centers),
        chunksize=chunksize, overwrite=overwrite, max_workers=max_workers, **wl.column_kwargs(rec),
    )


def _multisets(cache_dir: str) -> dict[int, np.ndarray]:
    return {pid: rows for pid, (_, rows) in orc.read_cache(cache_dir).items()}


def _same_partition(a: dict, b: dict) -> bool:
    if sorted(a) != sorted(b):
        return False
    return all(orc.rows_equal_multiset(a[p], b[p]) is None for p in a)


def _api_rows(cat) -> dict[int, np.ndarray]:
    out = {}
    for pid in cat.keys():
        data = cat[pid].load_data()
        names = list(data.dtype.names)
        out[pid] = np.column_stack([data[nm] for nm in names]) if len(data) else np.empty((0, len(names)))
    return out


def _binning_of(variant_edges, closed):
    return None if variant_edges is None else (list(variant_edges), closed)


class Scenario:
    """Prior state, workload and next-use oracle of one case (built in the
    runner process with the shim disarmed)."""

    def __init__(self, case: dict, root: str) -> None:
        import yaw

        self.case = case
        self.root = root
        self.tpl = os.path.join(root, "tpl")
        os.makedirs(self.tpl)
        self.parallel = case["workload"].startswith("par_")
        self.mw = None if self.parallel else 1
        w = self.base = case["workload"][4:] if self.parallel else case["workload"]
        seed = case["data_seed"]
        self.new = _records(seed, case["n_new"], EDGES_A)
        self.old = _records(seed + 1, case["n_old"], EDGES_A)
        self.cvariant = case.get("variant") if w in ("create", "overwrite") else "apply"
        if self.cvariant == "random":
            self.new = _random_records(case, case["n_new"], case["chunksize"])
        self.centers = _centers(case, {k_: v for k_, v in self.new.items() if k_ != "_rad"}, self.old)
        self.target = "cat"  # relative to the work directory
        # prefix of the result files; every other scenario uses one that contains a dot
        self.cd_name = "cd" if case["data_seed"] % 2 else "cd_z0.5"
        self.expect: dict[str, dict] = {}
        self.fresh_trees: dict[str, dict] = {}
        self.binnings: dict[str, tuple | None] = {}
        with _seq():
            if w == "create":
                self.expect["new"] = self._reference_partition(self.new)
            elif w == "overwrite":
                cat = _make_catalog(os.path.join(self.tpl, "cat"), self.old, self.centers)
                if case["prior"] == "with_trees":
                    cat.build_trees(EDGES_A)
                self.expect["old"] = _multisets(os.path.join(self.tpl, "cat"))
                self.expect["new"] = self._reference_partition(self.new)
            elif w in ("first_open", "build_trees", "rebuild"):
                _make_catalog(os.path.join(self.tpl, "cat"), self.new, self.centers, chunksize=case["chunksize"])
                self.expect["new"] = _multisets(os.path.join(self.tpl, "cat"))
                if w == "first_open":
                    from sim.scenes import strip_derived

                    strip_derived(self.tpl)
                old_b, new_b, self.force = self._rebuild_binnings()
                self.binnings = dict(old=old_b, new=new_b)
                # whatever was being built, the next use may ask for any binning: also unbinned and EDGES_A
                for label, b in (("unbinned", None), ("edgesA", (EDGES_A, "right"))):
                    if b not in self.binnings.values():
                        self.binnings[label] = b
                if w == "rebuild":
                    cat = yaw.Catalog(os.path.join(self.tpl, "cat"), max_workers=1)
                    self._build(cat, old_b)
                # a second catalog on the same centres: the reference sample when the catalog under
                # test is used unbinned (as the unknown sample of a cross-correlation)
                self.aux_rec = _records(seed + 7, max(12, case["n_old"]), EDGES_A)
                _make_catalog(os.path.join(self.tpl, "aux"), self.aux_rec, self.centers)
                self.fresh_meas: dict[str, object] = {}
                for label, b in self.binnings.items():
                    self.fresh_trees[label] = self._fresh_tree_state(b)
                    self.fresh_meas[label] = self._fresh_measurement(b)
            elif w in ("corrfunc_file", "corrdata_files"):
                pa, pb = os.path.join(root, "srcA"), os.path.join(root, "srcB")
                ca = _make_catalog(pa, self.new, self.centers)
                cb = _make_catalog(pb, self.old, self.centers)
                cfg = wl.make_config(dict(rmin=0.5, rmax=5.0, unit="deg", edges=EDGES_A))
                self.cf_new = yaw.autocorrelate(cfg, ca, ca, max_workers=1)[0]
                self.cf_old = yaw.autocorrelate(cfg, cb, cb, max_workers=1)[0]
                if case.get("variant") == "histdata":
                    self.sd_new = yaw.HistData.from_catalog(ca, cfg, max_workers=1)
                    self.sd_old = yaw.HistData.from_catalog(cb, cfg, max_workers=1)
                    self.sd_cls = yaw.HistData
                else:
                    self.sd_new, self.sd_old, self.sd_cls = self.cf_new.sample(), self.cf_old.sample(), yaw.CorrData
                os.makedirs(os.path.join(self.tpl, "out"))
                if case["prior"] == "older":
                    if w == "corrfunc_file":
                        self.cf_old.to_file(os.path.join(self.tpl, "out", "cf.hdf"))
                    else:
                        self.sd_old.to_files(os.path.join(self.tpl, "out", self.cd_name))
                # what a completed write reads back as (text files round)
                done = os.path.join(root, "done_io")
                os.makedirs(done)
                self.cf_new.to_file(os.path.join(done, "cf.hdf"))
                self.cf_old.to_file(os.path.join(done, "cf_old.hdf"))
                self.sd_new.to_files(os.path.join(done, self.cd_name))
                self.sd_old.to_files(os.path.join(done, "cd_old"))
                self.io_expect = dict(
                    cf_new=orc.corrfunc_state(yaw.CorrFunc.from_file(os.path.join(done, "cf.hdf"))),
                    cf_old=orc.corrfunc_state(yaw.CorrFunc.from_file(os.path.join(done, "cf_old.hdf"))),
                    cd_new=orc.sampled_state(self.sd_cls.from_files(os.path.join(done, self.cd_name))),
                    cd_old=orc.sampled_state(self.sd_cls.from_files(os.path.join(done, "cd_old"))),
                )
            else:
                raise ValueError(w)
        self.prior_hash = _tree_hash(self.tpl)

    # ---- helpers
    def _reference_partition(self, rec: dict) -> dict:
        if "_rad" in rec:
            d = rec["_rad"]
            rec = dict(ra=d["ra"], dec=d["dec"], w=d["weights"], z=d["redshifts"])
            cols, parts, amb = orc.expected_partition(rec, degrees=False, centers_rad=self.centers)
        else:
            cols, parts, amb = orc.expected_partition(rec, centers_rad=self.centers)
        if len(amb):
            raise RuntimeError("ambiguous nearest centre in a crashfs scenario")
        return parts

    def _rebuild_binnings(self):
        v = self.case.get("variant")
        force = False
        if self.base != "rebuild":
            return None, (EDGES_A, "right"), False
        if v == "same_nbins":
            return (EDGES_A, "right"), (EDGES_B, "right"), False
        if v == "other_closed":
            return (EDGES_A, "right"), (EDGES_A, "left"), False
        if v == "to_unbinned":
            return (EDGES_A, "right"), None, False
        if v == "to_binned":
            return None, (EDGES_A, "right"), False
        if v == "force_equal":
            return (EDGES_A, "right"), (EDGES_A, "right"), True
        if v == "fewer_bins":
            return (EDGES_A, "right"), (EDGES_C, "right"), False
        raise ValueError(v)

    def next_use_spec(self) -> dict:
        """Everything the next use needs, as plain data: it runs in a new process (child of the
        zygote forked before this process touched the library)."""
        keys = ("base", "io_expect", "sd_cls", "case", "expect", "binnings", "fresh_trees", "fresh_meas", "old_trees", "cd_name")
        return {k_: self.__dict__[k_] for k_ in keys if k_ in self.__dict__}

    def next_use_binnings(self) -> list[str]:
        """Labels of the binnings the next use is tried with (one recovery child each)."""
        if self.base not in ("build_trees", "rebuild", "first_open"):
            return ["new"]
        seen, out = [], []
        for label in ("new", "old", "unbinned", "edgesA"):
            if label in self.binnings and self.binnings[label] not in seen:
                seen.append(self.binnings[label])
                out.append(label)
        return out

    @staticmethod
    def _build(cat, binning, force=False, max_workers=1):
        if binning is None:
            cat.build_trees(None, force=force, max_workers=max_workers)
        else:
            cat.build_trees(binning[0], closed=binning[1], force=force, max_workers=max_workers)

    def _fresh_tree_state(self, binning) -> dict:
        import yaw
        from sim.scenes import strip_derived

        tmp = os.path.join(self.root, "fresh")
        shutil.rmtree(tmp, ignore_errors=True)
        shutil.copytree(os.path.join(self.tpl, "cat"), tmp)
        strip_derived(tmp, meta=False, trees=True)
        cat = yaw.Catalog(tmp, max_workers=1)
        self._build(cat, binning)
        st = orc.tree_state(cat)
        shutil.rmtree(tmp, ignore_errors=True)
        return st

    def _measure(self, cat_dir: str, aux_dir: str, binning):
        """A measurement through the public API that uses the catalog's trees for ``binning``:
        binned -> autocorrelation, unbinned -> the catalog is the unknown sample of a cross-correlation."""
        import yaw

        cat = yaw.Catalog(cat_dir, max_workers=1)
        if binning is None:
            aux = yaw.Catalog(aux_dir, max_workers=1)
            cfg = wl.make_config(dict(rmin=0.5, rmax=5.0, unit="deg", edges=EDGES_A))
            cfs = yaw.crosscorrelate(cfg, aux, cat, unk_rand=cat, max_workers=1)
        else:
            cfg = wl.make_config(dict(rmin=0.5, rmax=5.0, unit="deg", edges=list(binning[0]), closed=binning[1]))
            cfs = yaw.autocorrelate(cfg, cat, cat, max_workers=1)
        return [orc.corrfunc_state(cf) for cf in cfs]

    def _fresh_measurement(self, binning):
        from sim.scenes import strip_derived

        tmp = os.path.join(self.root, "freshm")
        shutil.rmtree(tmp, ignore_errors=True)
        os.makedirs(tmp)
        for name in ("cat", "aux"):
            shutil.copytree(os.path.join(self.tpl, name), os.path.join(tmp, name))
        strip_derived(tmp, meta=False, trees=True)
        try:
            return ("ok", self._measure(os.path.join(tmp, "cat"), os.path.join(tmp, "aux"), binning))
        except Exception as err:  # noqa: BLE001 - e.g. the out-of-scope empty-bin defect: then no expectation
            return ("raises", type(err).__name__)
        finally:
            shutil.rmtree(tmp, ignore_errors=True)

    # ---- the workload (runs in the workload child, shim armed)
    def work(self, workdir: str) -> None:
        import yaw

        import contextlib

        case, w = self.case, self.base
        target = os.path.join(workdir, "cat")
        mw = self.mw
        with (contextlib.nullcontext() if self.parallel else _seq()):
            if w == "create":
                _make_catalog(target, self.new, self.centers, chunksize=case["chunksize"], variant=self.cvariant, case=case, max_workers=mw)
            elif w == "overwrite":
                _make_catalog(target, self.new, self.centers, chunksize=case["chunksize"], overwrite=True, variant=self.cvariant, case=case, max_workers=mw)
            elif w == "first_open":
                yaw.Catalog(target, max_workers=mw)
            elif w in ("build_trees", "rebuild"):
                cat = yaw.Catalog(target, max_workers=mw)
                self._build(cat, self.binnings["new"], force=self.force, max_workers=mw)
            elif w == "corrfunc_file":
                self.cf_new.to_file(os.path.join(workdir, "out", "cf.hdf"))
            elif w == "corrdata_files":
                self.sd_new.to_files(os.path.join(workdir, "out", self.cd_name))

    # ---- next use (runs in a fresh recovery child, shim disarmed)
    def next_use(self, workdir: str, which: str = "new") -> dict:
        import yaw

        w = self.base
        with _seq():
            if w in ("corrfunc_file", "corrdata_files"):
                try:
                    if w == "corrfunc_file":
                        got = orc.corrfunc_state(yaw.CorrFunc.from_file(os.path.join(workdir, "out", "cf.hdf")))
                        new, old = self.io_expect["cf_new"], self.io_expect["cf_old"]
                    else:
                        got = orc.sampled_state(self.sd_cls.from_files(os.path.join(workdir, "out", self.cd_name)))
                        new, old = self.io_expect["cd_new"], self.io_expect["cd_old"]
                except Exception as err:  # noqa: BLE001
                    return dict(cls="ERROR", detail=type(err).__name__)
                if orc.states_equal(new, got) is None:
                    return dict(cls="AS_COMPLETED")
                if self.case["prior"] == "older" and orc.states_equal(old, got) is None:
                    return dict(cls="AS_NEVER_STARTED")
                return dict(
                    cls="SILENT_WRONG", outcome="mixed_result_files" if w == "corrdata_files" else "partial_result_file",
                    detail=f"read back an object that is neither the old nor the new one: vs new: {orc.states_equal(new, got)}; vs old: {orc.states_equal(old, got)}",
                )
            target = os.path.join(workdir, "cat")
            try:
                cat = yaw.Catalog(target, max_workers=1)
                rows = _api_rows(cat)
            except Exception as err:  # noqa: BLE001
                return dict(cls="ERROR", detail=type(err).__name__)
            label = None
            for lab, exp in self.expect.items():
                if _same_partition(exp, rows):
                    label = lab
            if label is None:
                nrec = sum(len(r) for r in rows.values())
                outcome = "opens_empty" if nrec == 0 else "partial_records"
                return dict(cls="SILENT_WRONG", outcome=outcome, detail=f"Catalog(cache) opens with patches {sorted(rows)} holding {nrec} records: neither the complete new nor the complete old input")
            probs = orc.metadata_problems(cat, None)
            if probs:
                return dict(cls="SILENT_WRONG", outcome="metadata_mismatch", detail="; ".join(probs[:3]))
            if w in ("build_trees", "rebuild", "first_open"):
                b = self.binnings[which]
                # the next use is what a user does next through the public API: (re)use the trees for a
                # binning and measure with them; only then are the cached trees themselves inspected
                try:
                    self._build(cat, b)
                except Exception as err:  # noqa: BLE001
                    return dict(cls="ERROR", detail=f"build_trees({which}): {type(err).__name__}")
                status, expect = self.fresh_meas[which]
                if status == "ok":
                    try:
                        got = self._measure(target, os.path.join(workdir, "aux"), b)
                    except Exception as err:  # noqa: BLE001
                        return dict(cls="ERROR", detail=f"measurement({which}): {type(err).__name__}")
                    msg = orc.states_equal(expect, got)
                    if msg:
                        return dict(cls="SILENT_WRONG", outcome="wrong_measurement", next_use=f"measurement({which} binning)",
                                    detail=f"measurement with the {which} binning on the surviving cache differs from fresh caches: {msg}")
                try:
                    st = orc.tree_state(cat)
                except Exception as err:  # noqa: BLE001
                    return dict(cls="ERROR", detail=f"trees({which}): {type(err).__name__}")
                msg = orc.states_equal(self.fresh_trees[which], st)
                if msg:
                    return dict(cls="SILENT_WRONG", outcome="stale_trees", next_use=f"build_trees({which} binning)",
                                detail=f"trees used for the {which} binning differ from freshly built ones: {msg}")
            if w == "overwrite" and label == "old":
                # behaves as never started: a measurement on it must equal fresh(old)
                try:
                    self._build(cat, (EDGES_A, "right"))
                    st = orc.tree_state(cat)
                except Exception as err:  # noqa: BLE001
                    return dict(cls="ERROR", detail=f"build_trees on surviving old catalog: {type(err).__name__}")
                if "old_trees" in self.__dict__ and orc.states_equal(self.old_trees, st):
                    return dict(cls="SILENT_WRONG", outcome="stale_trees", detail="old catalog survives but its trees differ from fresh ones")
            return dict(cls="AS_COMPLETED" if label == "new" else "AS_NEVER_STARTED")


class _NextUse:
    """The next use, rebuilt from ``Scenario.next_use_spec()`` in a pristine process."""

    def __init__(self, spec: dict) -> None:
        self.__dict__.update(spec)

    next_use = Scenario.next_use
    _build = staticmethod(Scenario._build)
    _measure = Scenario._measure


def _zy_next_use(spec: dict, workdir: str, which: str) -> dict:
    return _NextUse(spec).next_use(workdir, which)


def _tree_hash(path: str) -> str:
    from sim.creation import tree_hash

    return tree_hash(path) or "-"


def _op_signature(oplog: list[str], k: int) -> dict:
    """(syscall, basename, ordinal of that pair) of operation k: stable across
    sizes, unlike the global index."""
    if not (1 <= k <= len(oplog)):
        return dict(op="?", file="?", nth=0)
    parts = oplog[k - 1].split(" ")
    name, path = parts[1], parts[2]
    base = os.path.basename(path)
    kind = base if not base.startswith("patch_") or "." in base else "patch_dir"
    nth = 0
    for line in oplog[:k]:
        p = line.split(" ")
        b = os.path.basename(p[2])
        kk = b if not b.startswith("patch_") or "." in b else "patch_dir"
        if p[1] == name and kk == kind:
            nth += 1
    return dict(op=name, file=kind, nth=nth)


def _run_parallel_case(case: dict) -> dict:
    """Engine E1: the workload runs in parallel library mode as simulated processes; for every
    scheduler step k of the fault-free run the whole process group is killed at step k (same
    schedule), the surviving directory is copied at once (buffers of still-open files are lost
    with the processes) and a forked child performs the next use on the copy."""
    from sim import fakemp
    from sim.core import Sim
    from sim.isolate import Zygote

    zy = Zygote(dict(next_use=_zy_next_use))  # before this process touches the library
    root = tempfile.mkdtemp(prefix="c08p-", dir=wl.scratch_root())
    try:
        try:
            sc = Scenario(case, root)
        except Exception as err:  # noqa: BLE001
            return dict(verdict="discard", detail=f"scenario not buildable: {type(err).__name__}")
        spec = sc.next_use_spec()
        work = os.path.join(root, "work")
        snap = os.path.join(root, "snap")

        def simulate(kill_at):
            shutil.rmtree(work, ignore_errors=True)
            shutil.copytree(sc.tpl, work)
            sim = Sim(case.get("sched_seed", 0), policy=case.get("policy", "prng"), fs_root=work,
                      cores=case.get("workers", 2), step_cap=80_000)
            if kill_at is not None and case.get("kill_mode", "all") == "main":
                sim.faults["kill_main_at"] = kill_at
                sim.faults["timeouts_fire"] = 0
            elif kill_at is not None:
                sim.faults["kill_all_at"] = kill_at
            with fakemp.patched(sim):
                verdict = sim.run(sc.work, work)
            shutil.rmtree(snap, ignore_errors=True)
            shutil.copytree(work, snap)  # what survives, before any parked thread is unwound
            return sim, verdict

        sim, verdict = simulate(None)
        nsteps = sim.steps
        log = [ev for ev in sim.log if isinstance(ev[0], int)]
        ok = verdict == "complete" and sim.main.exc is None
        sim.cleanup()
        if not ok:
            return dict(verdict="discard", detail=f"fault-free parallel workload did not complete ({verdict})")
        done_hash = _tree_hash(snap)
        res = zy.call("next_use", spec, snap, "new")
        if res[0] != "ok" or res[1]["cls"] != "AS_COMPLETED":
            return dict(verdict="harness_error", error=f"completed parallel workload is not classified AS_COMPLETED: {res}")
        ks = [case["crash_at"]] if case.get("crash_at") else list(range(1, nsteps))
        subs, probes, classes = [], {"parallel_crash_case": 1}, {}
        violation = None
        for k in ks:
            sim, verdict = simulate(k)
            main_only = case.get("kill_mode", "all") == "main"
            if main_only:
                probes["main_process_killed_alone"] = probes.get("main_process_killed_alone", 0) + 1
                if not sim.faults.get("_fired", {}).get("kill_main"):
                    sim.cleanup()  # the main process had finished before step k: nothing was killed
                    continue
                if str(verdict) == "step_cap":
                    sim.cleanup()
                    return dict(verdict="harness_error", error=f"kill-main@{k}/{nsteps}: verdict {verdict}")
            elif verdict != "killed_all":
                sim.cleanup()
                return dict(verdict="harness_error", error=f"kill-all@{k}/{nsteps}: verdict {verdict}")
            h = _tree_hash(snap)
            ev = log[k] if k < len(log) else (k, "?", ("?",))
            op = ev[2]
            opsig = dict(task=str(ev[1]).split(".")[0].rstrip("0123456789"), op=str(op[0]),
                         what=str(op[1]) if len(op) > 1 and op[0] == "fs" else "",
                         file=os.path.basename(str(op[2])).split("_")[0] if len(op) > 2 and op[0] == "fs" else "")
            verdicts = []
            whichs = sc.next_use_binnings()
            for which in whichs:
                use_dir = snap
                if len(whichs) > 1:
                    use_dir = os.path.join(root, "use")
                    shutil.rmtree(use_dir, ignore_errors=True)
                    shutil.copytree(snap, use_dir)
                r = zy.call("next_use", spec, use_dir, which)
                if r[0] != "ok":
                    sim.cleanup()
                    return dict(verdict="harness_error", error=f"next use after kill-all@{k} failed: {r}")
                verdicts.append((which, r[1]))
            sim.cleanup()
            for which, v in verdicts:
                classes[v["cls"]] = classes.get(v["cls"], 0) + 1
                if v["cls"] == "SILENT_WRONG" and violation is None:
                    sig = dict(property=PROP, workload=case["workload"], prior_state=case.get("prior") or case.get("variant") or "-",
                               op=opsig, next_use=v.get("next_use", "open"), outcome=v.get("outcome", "silent_wrong"))
                    violation = dict(signature=sig, focus=k, tail=[list(map(str, e)) for e in log[max(0, k - 12): k + 1]],
                                     detail=f"{'main process alone' if main_only else 'whole process group'} killed at scheduler step {k}/{nsteps} (next event would have been {ev}): {v.get('detail')}")
            subs.append(dict(digest=hashlib.sha256(f"{case['workload']}:{h}".encode()).hexdigest(),
                             nontrivial=h not in (sc.prior_hash, done_hash), steps=k))
            if violation is not None:
                break
        hh = hashlib.sha256()
        for s_ in subs:
            hh.update(s_["digest"].encode())
        res = dict(verdict="ok" if violation is None else "violation", subs=subs, digest=hh.hexdigest(),
                   nontrivial=any(s_["nontrivial"] for s_ in subs), steps=sum(s_["steps"] for s_ in subs), probes=probes,
                   faults=dict(kill_all=len(subs)), head=[list(map(str, e)) for e in log[:25]], classes=classes, nops=nsteps)
        if violation is not None:
            res.update(violation)
        return res
    finally:
        zy.close()
        shutil.rmtree(root, ignore_errors=True)


def run_case(case: dict) -> dict:
    if case["workload"].startswith("par_"):
        return _run_parallel_case(case)
    from sim.isolate import IsolatedError, Zygote

    zy = Zygote(dict(next_use=_zy_next_use))  # before this process touches the library
    root = tempfile.mkdtemp(prefix="c08-", dir=wl.scratch_root())
    try:
        try:
            sc = Scenario(case, root)
        except Exception as err:  # noqa: BLE001 - e.g. the out-of-scope build_trees defect on a patch without objects in any bin
            return dict(verdict="discard", detail=f"scenario not buildable: {type(err).__name__}")
        spec = sc.next_use_spec()

        def recover(d, which):
            try:
                return 0, zy.call("next_use", spec, d, which, timeout=60)
            except IsolatedError as err:
                return 1, ("died", str(err))
        log = os.path.join(root, "oplog.txt")
        work = os.path.join(root, "work")

        def fresh_work():
            shutil.rmtree(work, ignore_errors=True)
            shutil.copytree(sc.tpl, work)

        def workload_child(mode, k):
            def fn():
                crashfs.install_scandir_permutation(case["scandir_seed"])
                crashfs.arm(work, log if mode == crashfs.MODE_COUNT else None, mode, k)
                sc.work(work)
                return crashfs.disarm()

            return fn

        # ---- fault-free run: count operations, keep the completed state
        fresh_work()
        if os.path.exists(log):
            os.remove(log)
        code, payload = crashfs.run_child(workload_child(crashfs.MODE_COUNT, -1))
        if code == 0 and payload is not None and payload[0] == "exception" and "contains no data" in str(payload[2]):
            # the generated centres leave one without objects: the library refuses (C12), nothing to crash
            return dict(verdict="discard", detail="fault-free workload refused: a centre without objects")
        if code != 0 or payload is None or payload[0] != "ok":
            return dict(verdict="harness_error", error=f"fault-free workload failed: exit {code}, {payload}")
        nops = int(payload[1])
        oplog = crashfs.read_oplog(log)
        done_hash = _tree_hash(work)
        code, res = recover(work, "new")
        if code != 0 or res is None or res[0] != "ok" or res[1]["cls"] != "AS_COMPLETED":
            return dict(verdict="harness_error", error=f"completed workload is not classified AS_COMPLETED: exit {code}, {res}")

        ks = [case["crash_at"]] if case.get("crash_at") else list(range(1, nops + 1))
        subs, probes, classes = [], {}, {}
        violation = None
        steps = 0
        if case.get("prior") == "with_trees":
            probes["prior_with_trees"] = 1
        for k in ks:
            fresh_work()
            code, _ = crashfs.run_child(workload_child(crashfs.MODE_CRASH, k))
            if code != 137:
                return dict(verdict="harness_error", error=f"crash@{k}/{nops}: workload child exited with {code}, not 137")
            steps += k
            h = _tree_hash(work)
            opsig = _op_signature(oplog, k)
            if opsig["op"] in ("unlink", "rmdir"):
                probes["crash_in_rmtree"] = probes.get("crash_in_rmtree", 0) + 1
            if opsig["file"] == "binning" and opsig["op"] == "open":
                probes["crash_between_trees_and_binning"] = probes.get("crash_between_trees_and_binning", 0) + 1
            if opsig["op"] in ("write", "fwrite") and k >= 2 and oplog[k - 2].split(" ")[1] in ("open", "fopen", "creat"):
                probes["crash_after_create_before_write"] = probes.get("crash_after_create_before_write", 0) + 1
            if opsig["op"] == "pwrite":
                probes["crash_in_hdf5_write"] = probes.get("crash_in_hdf5_write", 0) + 1
            verdicts = []
            whichs = sc.next_use_binnings()
            for which in whichs:
                use_dir = work
                if len(whichs) > 1:
                    use_dir = os.path.join(root, "use")
                    shutil.rmtree(use_dir, ignore_errors=True)
                    shutil.copytree(work, use_dir)
                code, res = recover(use_dir, which)
                if code != 0 or res is None or res[0] != "ok":
                    return dict(verdict="harness_error", error=f"recovery child failed at crash@{k}: exit {code}, {res}")
                verdicts.append((which, res[1]))
            for which, v in verdicts:
                classes[v["cls"]] = classes.get(v["cls"], 0) + 1
                if v["cls"] == "SILENT_WRONG" and violation is None:
                    sig = dict(
                        property=PROP, workload=case["workload"], prior_state=case.get("prior") or case.get("variant") or "-",
                        op=opsig, next_use=v.get("next_use", "open"), outcome=v.get("outcome", "silent_wrong"),
                    )
                    violation = dict(
                        signature=sig,
                        detail=f"crash before operation {k}/{nops} ({oplog[k - 1] if k <= len(oplog) else '?'}): {v.get('detail')}",
                        focus=k,
                        tail=oplog[max(0, k - 12) : k],
                    )
            subs.append(dict(
                digest=hashlib.sha256(f"{case['workload']}:{h}".encode()).hexdigest(),
                nontrivial=h not in (sc.prior_hash, done_hash), steps=k,
            ))
            if violation is not None:
                break
        hh = hashlib.sha256()
        for s in subs:
            hh.update(s["digest"].encode())
        res = dict(
            verdict="ok" if violation is None else "violation",
            subs=subs, digest=hh.hexdigest(), nontrivial=any(s["nontrivial"] for s in subs),
            steps=steps, probes=probes, faults=dict(crash=len(subs)),
            head=oplog[:25], classes=classes, nops=nops,
        )
        if violation is not None:
            res.update(violation)
        return res
    finally:
        zy.close()
        shutil.rmtree(root, ignore_errors=True)
