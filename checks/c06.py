"""
C06 -- MPI runs terminate and the root rank gets the single-process result.

Engine E1 with the fake ``mpi4py`` (own interpreter: ``check.py`` installs it
before ``import yaw``, so the MPI branches of parallel.py / catalog.py /
readers.py are the real code under test).  One case = one SPMD program on a
simulated world: create catalogs -> reopen -> build trees -> cross/auto-
correlate -> histogram -> result I/O, plus an ``iter_unordered`` probe.
"""

from __future__ import annotations

import copy
import os
import shutil
import tempfile

import numpy as np

from sim import oracles as orc
from sim import scenes
from sim import workloads as wl
from sim.core import Prng, Sim, Verdict, current_sim, current_task, mix

PROP = "C06"
ENGINE = "fakempi"
LEVEL = "exploration"
BUDGET = dict(quick=110.0, thorough=1500.0)
BATCH = 5
CASE_TIMEOUT = 180.0
RULE = (
    "one evaluation = one simulated MPI world (2-6 ranks, one or two nodes) running the SPMD program "
    "'create 4 catalogs (DataFrame / FITS / HDF5 / Parquet / random generator; given centres, catalog as "
    "centres, patch-id column, generated centres) -> Catalog(dir) -> build_trees -> crosscorrelate -> "
    "autocorrelate -> HistData.from_catalog -> CorrFunc/CorrData/Configuration to_file+from_file -> "
    "iter_unordered probe' with max_workers in {None,1,2,size,size+3}; the seeded scheduler decides rank "
    "progress, eager vs synchronous completion of every send, arrival order across senders and wildcard "
    "matching.  Oracles: all ranks terminate, no unmatched message, consistent collectives, every probe "
    "argument executed once, record-multiset model on the caches, rank-0 results bitwise equal to the "
    "single-rank execution on the same cache bytes, read-back objects equal on every rank.  "
    "distinct_nontrivial = distinct event-log digests among runs with a real choice."
)
ASSUMPTIONS = [
    "the network model is the loosest the MPI standard permits (DESIGN.md 2.3): no ordering across senders, "
    "eager or synchronous standard send; it is not a model of any particular MPI library",
    "single-process reference = the same library calls in a world of one rank on a pristine copy of the cache "
    "bytes produced by the MPI run (records themselves are checked against the independent multiset model)",
    "shared file system between ranks",
]
PROBES = [
    "wildcard_recv_multiple_senders",
    "wildcard_matched_later_message_first",
    "sync_send_chosen",
    "eager_send_chosen",
    "max_workers_1",
    "max_workers_gt_size",
    "two_nodes",
    "causal_delivery_run",
    "source_file",
    "source_random",
    "patch_mode_create",
    "patch_mode_divide",
    "refusal_on_all_ranks",
]
REAL_VS_STUB = dict(
    real="all of yaw incl. the MPI branches (_mpi_root_task/_mpi_worker_task, WorkerManager, scatter_data_chunk, "
    "writer_task, bcast_instance, root-only readers), numpy, h5py, pyarrow, astropy, tmpfs",
    stub="mpi4py.MPI (sim.fakempi): point-to-point, bcast/Bcast/gather/Barrier/Split/Free, processor names; treecorr RNG/threads",
)

SOURCES = ["df", "df", "hdf5", "parquet", "fits"]


def _probe_func(arg, offset):
    sim = current_sim()
    t = current_task()
    if sim is not None:
        sim.objects.setdefault("probe_log", []).append((arg, getattr(t, "mpi_rank", -1)))
    return (arg, arg * arg + offset)


def gen_case(prng: Prng, tier: str) -> dict:
    size = prng.choice([2, 3, 3, 4, 4, 5, 6])
    scene = scenes.gen_scene(prng, small=True)
    scene["chunksize"] = prng.choice([None, 9, 20, 41])
    mode = prng.choice(["apply", "apply", "divide", "create"])
    two_nodes = size >= 4 and prng.chance(1, 5)
    rref_source = prng.choice(["df", "random"])
    if mode != "apply":
        rref_source = "df"  # random rref needs centres known in advance (fault-free scene)
    return dict(
        prop=PROP,
        size=size,
        nodes=(["node0"] * (size - size // 2) + ["node1"] * (size // 2)) if two_nodes else None,
        causal=prng.chance(1, 4),
        force_mode=prng.choice([None, None, None, "eager", "sync"]),
        scene=scene,
        ref_mode=mode,
        ref_source=prng.choice(SOURCES),
        unk_source=prng.choice(["df", "df", "hdf5"]),
        rref_source=rref_source,
        mw_create=prng.choice([None, None, 2, size, size + 3]),
        mw_measure=prng.choice([None, None, 1, 2, size, size + 3]),
        progress=prng.chance(1, 5),
        ops=["create", "reopen", "trees", "cross", "auto", "hist", "io", "iter"] + (["refuse"] if prng.chance(1, 2) else []),
        randoms=prng.choice([["rref", "runk"], ["runk"], ["rref"]]),
        count_rr=prng.chance(1, 2),
        ntasks=prng.randint(0, 9),
        policy=prng.choice(["prng", "prng", "prng", "last", "rr"]),
        sched_seed=prng.below(1 << 40),
    )


def gen_cases(tier: str, verif_seed: int, runs: int | None = None) -> list[dict]:
    n = runs if runs is not None else (260 if tier == "quick" else 20000)
    return [gen_case(Prng(mix(verif_seed, PROP, i)), tier) for i in range(n)]


def case_size(case: dict) -> int:
    sc = case["scene"]
    return (
        sc["n_ref"] + sc["n_unk"] + sc["n_rref"] + sc["n_runk"] + 60 * case["size"] + 15 * len(case["ops"])
        + (0 if case["ref_source"] == "df" else 30) + (0 if case["ref_mode"] == "apply" else 30)
    )


def shrinks(case: dict):
    ops = case["ops"]
    # drop whole stages (later stages first; "create" is needed by everything)
    for op in ("refuse", "iter", "io", "hist", "auto", "cross", "trees", "reopen"):
        if op in ops:
            c = copy.deepcopy(case)
            c["ops"] = [o for o in ops if o != op]
            yield c
    if case["size"] > 2:
        c = copy.deepcopy(case)
        c["size"] -= 1
        c["nodes"] = None
        yield c
    for key, simple in (("ref_source", "df"), ("unk_source", "df"), ("rref_source", "df"), ("ref_mode", "apply"),
                        ("nodes", None), ("progress", False), ("causal", True), ("force_mode", "eager")):
        if case.get(key) != simple:
            c = copy.deepcopy(case)
            c[key] = simple
            yield c
    sc = case["scene"]
    for key in ("n_ref", "n_unk", "n_rref", "n_runk"):
        v = max(8, sc[key] // 2)
        if v < sc[key]:
            c = copy.deepcopy(case)
            c["scene"][key] = v
            yield c
    if sc["k"] > 2:
        c = copy.deepcopy(case)
        c["scene"]["k"] -= 1
        yield c
    if sc.get("chunksize") is not None:
        c = copy.deepcopy(case)
        c["scene"]["chunksize"] = None
        yield c


# ------------------------------------------------------------------ program
def _inputs(case: dict, root: str):
    """Data, centres and input files shared by all ranks (written before the
    world starts: a shared file system)."""
    scene = case["scene"]
    records = scenes.scene_records(scene)
    centers = scenes.scene_centers(scene, records)
    if len(centers) < 2:
        return None
    edges = scene["edges"]
    for name in scenes.CATS:
        r = records[name]
        if "z" in r:
            radec = np.deg2rad(np.column_stack([r["ra"], r["dec"]]))
            ids, _ = wl.nearest_center(radec, centers)
            inside = (r["z"] > edges[0]) & (r["z"] < edges[-1])
            if (np.bincount(ids[inside], minlength=len(centers)) == 0).any():
                return None
    radec = np.deg2rad(np.column_stack([records["ref"]["ra"], records["ref"]["dec"]]))
    ref_ids, _ = wl.nearest_center(radec, centers)
    if case["rref_source"] == "random" and case["ref_mode"] == "apply":
        # every centre must attract a random point, and every patch one inside the binning
        import yaw

        ra0, ra1, de0, de1 = wl.REGIONS[scene.get("region", "box")]
        gen = yaw.randoms.BoxRandoms(
            ra0, ra1, de0, de1, redshifts=records["ref"]["z"], weights=records["ref"].get("w"),
            seed=scene["data_seed"] % 99991,
        )
        gen.reseed()
        cs = scene.get("chunksize") or 16_777_216
        left, chunks = len(records["rref"]["ra"]), []
        while left > 0:
            chunks.append(gen(min(cs, left)))
            left -= min(cs, left)
        data = np.concatenate(chunks)
        ids, _ = wl.nearest_center(np.column_stack([data["ra"], data["dec"]]), centers)
        inside = (data["redshifts"] > edges[0]) & (data["redshifts"] < edges[-1])
        if (np.bincount(ids[inside], minlength=len(centers)) == 0).any():
            return None
    elif case["rref_source"] == "random":
        return None  # centres not known in advance: cannot guarantee a fault-free scene
    files = {}
    for name, key in (("ref", "ref_source"), ("unk", "unk_source")):
        kind = case[key]
        if kind in ("fits", "hdf5", "parquet"):
            path = os.path.join(root, f"input_{name}{wl.SOURCE_EXT[kind]}")
            pid = ref_ids.astype("i8") if (name == "ref" and case["ref_mode"] == "divide") else None
            wl.write_source(kind, path, records[name], pid, pq_seed=scene["data_seed"])
            files[name] = path
    return dict(records=records, centers=centers, ref_ids=ref_ids, files=files)


def _create_all(case: dict, inp: dict, root: str, state: dict, cats: dict) -> None:
    import yaw

    scene = case["scene"]
    records, centers = inp["records"], inp["centers"]
    mw = case["mw_create"]
    common = dict(max_workers=mw, chunksize=scene.get("chunksize"), progress=case.get("progress", False))
    coords = yaw.AngularCoordinates(centers)
    # ---- reference catalog: the drawn source and patch mode
    mode = case["ref_mode"]
    rec = records["ref"]
    pk = {}
    kw = wl.column_kwargs(rec, patch_name=(mode == "divide"))
    if mode == "apply":
        pk["patch_centers"] = coords
    elif mode == "create":
        pk["patch_num"] = len(centers)
        pk["probe_size"] = max(len(rec["ra"]), 10 * len(centers))  # below 10*k the library jumps to 100000*sqrt(k)
    path = os.path.join(root, "ref")
    if case["ref_source"] == "df":
        pid = inp["ref_ids"].astype("i8") if mode == "divide" else None
        cats["ref"] = yaw.Catalog.from_dataframe(path, wl.make_dataframe(rec, pid), **kw, **pk, **common)
    else:
        cats["ref"] = yaw.Catalog.from_file(path, inp["files"]["ref"], **kw, **pk, **common)
    # ---- the others take the reference catalog as patch centres
    for name in ("unk", "rref", "runk"):
        rec = records[name]
        path = os.path.join(root, name)
        if name == "unk" and case["unk_source"] != "df":
            cats[name] = yaw.Catalog.from_file(
                path, inp["files"]["unk"], patch_centers=cats["ref"], **wl.column_kwargs(rec), **common
            )
        elif name == "rref" and case["rref_source"] == "random":
            ra0, ra1, de0, de1 = wl.REGIONS[scene.get("region", "box")]
            gen = yaw.randoms.BoxRandoms(
                ra0, ra1, de0, de1, redshifts=records["ref"]["z"], weights=records["ref"].get("w"),
                seed=scene["data_seed"] % 99991,
            )
            cats[name] = yaw.Catalog.from_random(
                path, gen, len(rec["ra"]), patch_centers=cats["ref"],
                max_workers=mw, chunksize=scene.get("chunksize"), progress=case.get("progress", False),
            )
        else:
            cats[name] = yaw.Catalog.from_dataframe(
                path, wl.make_dataframe(rec), patch_centers=cats["ref"], **wl.column_kwargs(rec), **common
            )
    for name in scenes.CATS:
        state[f"created.{name}"] = orc.catalog_state(cats[name])
    if "refuse" in case["ops"] and len(centers) >= 3:
        # a catalog with another patch index set: measurements must refuse it on every rank
        rec = records["runk"]
        sub = wl.ensure_nonempty_centers(rec, centers[:-1])
        if len(sub) == len(centers) - 1:
            cats["bad"] = yaw.Catalog.from_dataframe(
                os.path.join(root, "bad"), wl.make_dataframe(rec), patch_centers=yaw.AngularCoordinates(sub),
                **wl.column_kwargs(rec), **common
            )


def _measure_ops(case: dict, root: str, state: dict, *, mw, io_dir: str) -> None:
    """Everything after creation; also executed by the single-rank reference."""
    import yaw
    from yaw.utils import parallel

    scene = case["scene"]
    ops = case["ops"]
    config = scenes.scene_config(scene)
    progress = case.get("progress", False)
    kw = dict(max_workers=mw)
    cats = {}
    if "reopen" in ops or any(o in ops for o in ("trees", "cross", "auto", "hist", "io")):
        for name in scenes.CATS:
            cats[name] = yaw.Catalog(os.path.join(root, name), **kw)
            state[f"reopen.{name}"] = orc.catalog_state(cats[name])
    if "trees" in ops:
        cats["ref"].build_trees(scene["edges"], closed=scene["closed"], progress=progress, **kw)
        cats["unk"].build_trees(None, progress=progress, **kw)
        if parallel.on_root():
            state["trees.ref"] = orc.tree_state(cats["ref"])
            state["trees.unk"] = orc.tree_state(cats["unk"])
    cross = None
    if "cross" in ops:
        rk = {}
        if "rref" in case["randoms"]:
            rk["ref_rand"] = cats["rref"]
        if "runk" in case["randoms"]:
            rk["unk_rand"] = cats["runk"]
        cross = yaw.crosscorrelate(config, cats["ref"], cats["unk"], progress=progress, **rk, **kw)
        if parallel.on_root():
            state["cross"] = [orc.corrfunc_state(cf) for cf in cross]
    if "auto" in ops:
        auto = yaw.autocorrelate(config, cats["ref"], cats["rref"], count_rr=case["count_rr"], progress=progress, **kw)
        if parallel.on_root():
            state["auto"] = [orc.corrfunc_state(cf) for cf in auto]
    if "hist" in ops:
        h = yaw.HistData.from_catalog(cats["ref"], config, progress=progress, **kw)
        state["hist"] = orc.sampled_state(h)  # Bcast: identical on every rank
    if "io" in ops and cross is not None:
        os.makedirs(io_dir, exist_ok=True) if parallel.on_root() else None
        parallel.COMM.Barrier()
        p = os.path.join(io_dir, "cf.hdf")
        cross[0].to_file(p)
        back = yaw.CorrFunc.from_file(p)
        state["io.corrfunc"] = orc.corrfunc_state(back)
        # (whether back == cross[0] is C11's business: to_hdf mislabels the groups
        # when an optional member is absent; here both executions must agree)
        # text files: root computes the data, every rank reads it back
        if len(scene["edges"]) > 2:  # load_data cannot unpack a 1-bin file (C11 territory)
            cd = cross[0].sample()
            prefix = os.path.join(io_dir, "cd")
            cd.to_files(prefix)
            back = yaw.CorrData.from_files(prefix)
            state["io.corrdata"] = orc.sampled_state(back)
        # Configuration.to_file/from_file is broken on the pinned tree even in a
        # single process (C11 territory, DESIGN.md 5) and is therefore not part
        # of the program
    if "refuse" in ops and os.path.isdir(os.path.join(root, "bad")):
        bad = yaw.Catalog(os.path.join(root, "bad"), **kw)
        try:
            yaw.crosscorrelate(config, cats["ref"], bad, unk_rand=bad, progress=progress, **kw)
            state["refuse"] = "no_raise"
        except Exception as err:  # noqa: BLE001 - the refusal we expect, on every rank
            state["refuse"] = "raised"
            state["refuse.type"] = type(err).__name__
    if "iter" in ops:
        res = list(parallel.iter_unordered(_probe_func, range(case["ntasks"]), func_args=(3,), **kw))
        if parallel.on_root():
            state["iter"] = sorted(res)


def _sig(case: dict, entry: str, outcome: str, **extra) -> dict:
    s = dict(property=PROP, entry=entry, mode="mpi", outcome=outcome)
    s.update(extra)
    return s


def run_case(case: dict) -> dict:
    import yaw.catalog.catalog as ycat
    import yaw.utils.logging as ylog
    from sim import fakempi

    root = tempfile.mkdtemp(prefix="c06-", dir=wl.scratch_root())
    try:
        simroot = os.path.join(root, "mpi")
        os.makedirs(simroot)
        inp = _inputs(case, simroot)
        if inp is None:
            return dict(verdict="discard", detail="degenerate scene (empty centre/bin)")
        size = case["size"]
        states: dict[int, dict] = {r: {} for r in range(size)}

        def program(rank: int):
            st = states[rank]
            cats: dict = {}
            _create_all(case, inp, simroot, st, cats)
            _measure_ops(case, simroot, st, mw=case["mw_measure"], io_dir=os.path.join(simroot, "io"))
            return True

        from sim import procstate

        procstate.uninstall()
        procstate.install()  # every rank is a process of its own: rank-local memo caches
        sim = Sim(
            case.get("sched_seed", 0), choices=case.get("schedule"), policy=case.get("policy", "prng"),
            fs_root=simroot, step_cap=case.get("step_cap", 120_000),
        )
        sim.scrub = [os.path.realpath(root), root]
        sink = open(os.devnull, "w")
        saved_stream = ylog.Indicator.__init__.__kwdefaults__["stream"]
        ylog.Indicator.__init__.__kwdefaults__["stream"] = sink
        saved_tc = ycat.treecorr
        seeded_tc = ycat.treecorr = wl.SeededTreecorr(case["scene"]["data_seed"] % 9973)
        try:
            verdict, world = fakempi.run_world(
                sim, size, program, causal=case.get("causal", False), nodes=case.get("nodes"),
                force_mode=case.get("force_mode"),
            )
        finally:
            ycat.treecorr = saved_tc
            ylog.Indicator.__init__.__kwdefaults__["stream"] = saved_stream
            sink.close()

        probes = dict(sim.probes)
        if world.stats["sync"]:
            probes["sync_send_chosen"] = 1
        if world.stats["eager"]:
            probes["eager_send_chosen"] = 1
        if case["mw_measure"] == 1:
            probes["max_workers_1"] = 1
        if (case["mw_measure"] or 0) > size or (case["mw_create"] or 0) > size:
            probes["max_workers_gt_size"] = 1
        if case.get("nodes"):
            probes["two_nodes"] = 1
        if case.get("causal"):
            probes["causal_delivery_run"] = 1
        if case["ref_source"] != "df":
            probes["source_file"] = 1
        if case["rref_source"] == "random":
            probes["source_random"] = 1
        probes[f"patch_mode_{case['ref_mode']}"] = 1
        if all(states[r].get("refuse") == "raised" for r in range(size)):
            probes["refusal_on_all_ranks"] = 1
        races = sim.file_races()
        if races:
            probes["file_races"] = len(races)

        base = dict(
            digest=sim.digest(), nontrivial=sim.multi_choice_steps > 0, steps=sim.steps, probes=probes,
            head=sim.head(25), choices=list(sim.choices),
        )
        mwc = "1" if case["mw_measure"] == 1 else "other"
        sig = detail = None
        if seeded_tc.degenerate:
            sim.cleanup()
            return dict(base, verdict="discard", detail="k-means produced a non-finite centre (degenerate input for patch_num)")
        try:
            errs = [(t.name, t.exc, t.tb) for t in sim.tasks if t.exc is not None]
            mism = sim.objects.get("collective_mismatch")
            if mism:
                sig, detail = _sig(case, "collective", "collective_mismatch"), f"{mism[:2]}"
            elif errs and _degenerate_after_the_fact(case, inp, states, errs, simroot, root):
                return dict(base, verdict="discard", detail="degenerate scene (empty centre/bin w.r.t. generated centres) or reference raises too")
            elif errs:
                name, exc, tb = errs[0]
                sig = _sig(case, _entry_from_tb(tb), "raises", exc=type(exc).__name__, max_workers=mwc)
                detail = f"{name} raised {exc!r}; run verdict {verdict}; blocked: {sim.blocked_report[:6]}\n{tb[-1500:]}"
            elif verdict != Verdict.COMPLETE:
                reasons = sorted({str(b["op"][0]) for b in sim.blocked_report})
                sig = _sig(case, _entry_from_blocked(sim), verdict, blocked=reasons)
                detail = f"{verdict}: {sim.blocked_report}; in flight: {world.in_flight()[:6]}"
            elif world.in_flight():
                sig = _sig(case, "messages", "unmatched_message")
                detail = f"all ranks returned but messages were never received: {world.in_flight()[:6]}"
            if sig is None:
                sig, detail = _evaluate(case, inp, simroot, root, states, sim)
                if sig == "discard":
                    tail = sim.tail(5)
                    return dict(base, verdict="discard", detail=detail)
                if sig is not None:
                    sig["max_workers"] = mwc
        finally:
            tail = sim.tail(30)
            sim.cleanup()
        res = dict(base, verdict="ok" if sig is None else "violation")
        if sig is not None:
            res.update(signature=sig, detail=detail, tail=tail)
        return res
    finally:
        from sim import procstate

        procstate.uninstall()
        shutil.rmtree(root, ignore_errors=True)


def _degenerate_after_the_fact(case, inp, states, errs, simroot, root) -> bool:
    """A rank raised.  That is not a verdict when (a) the scene turns out to have
    a centre without objects with respect to the centres the reference catalog
    reported (generated / data-mean centres are not known in advance), or (b) the
    single-rank execution of the same calls on the same caches raises the same
    exception type (DESIGN.md 2.6a)."""
    import yaw
    from sim import fakempi
    from sim.scenes import strip_derived

    name, exc, tb = errs[0]
    st0 = states[0]
    if "contains no data" in str(exc) and case["ref_mode"] != "apply" and "created.ref" not in st0:
        # creation of a later catalog failed: check emptiness against ref's centres on disk
        pass
    if "contains no data" in str(exc) and case["ref_mode"] != "apply":
        try:
            with fakempi.single_rank():
                cen = np.asarray(yaw.Catalog(os.path.join(simroot, "ref"), max_workers=1).get_centers().data).reshape(-1, 2)
            for nm in ("unk", "rref", "runk"):
                r = inp["records"][nm]
                ids, _ = wl.nearest_center(np.deg2rad(np.column_stack([r["ra"], r["dec"]])), cen)
                if (np.bincount(ids, minlength=len(cen)) == 0).any():
                    return True
        except Exception:  # noqa: BLE001
            return False
        return False
    if "_measure_ops" not in tb:
        return False
    refroot = os.path.join(root, "ref0")
    try:
        shutil.copytree(simroot, refroot)
        strip_derived(refroot, meta=False, trees=True)
        shutil.rmtree(os.path.join(refroot, "io"), ignore_errors=True)
        with fakempi.single_rank():
            _measure_ops(dict(case, progress=False), refroot, {}, mw=1, io_dir=os.path.join(refroot, "io"))
    except Exception as err2:  # noqa: BLE001
        return type(err2).__name__ == type(exc).__name__
    finally:
        shutil.rmtree(refroot, ignore_errors=True)
    return False


def _entry_from_tb(tb: str) -> str:
    for name in ("from_dataframe", "from_file", "from_random", "load_patches", "build_trees", "crosscorrelate",
                 "autocorrelate", "from_catalog", "to_file", "from_files", "to_files", "iter_unordered"):
        if f"in {name}" in tb:
            return name
    return "-"


def _entry_from_blocked(sim) -> str:
    t0 = next((t for t in sim.tasks if t.name == "rank0"), None)
    return "-" if t0 is None else str(t0.op[0])


def _evaluate(case: dict, inp: dict, simroot: str, root: str, states: dict, sim) -> tuple[dict | None, str | None]:
    import yaw
    from sim import fakempi
    from sim.scenes import strip_derived

    scene = case["scene"]
    st0 = states[0]
    # ---- records: independent multiset model on the raw caches
    for name in scenes.CATS:
        path = os.path.join(simroot, name)
        try:
            cache = orc.read_cache(path)
        except Exception as err:  # noqa: BLE001
            return _sig(case, "create", "wrong_records", catalog=name), f"{name}: cache unreadable: {err!r}"
        ids_file = orc.read_patch_ids_file(path)
        if ids_file != sorted(cache):
            return _sig(case, "create", "wrong_records", catalog=name), f"{name}: patch_ids.bin {ids_file} != {sorted(cache)}"
        if name == "rref" and case["rref_source"] == "random":
            n = len(inp["records"][name]["ra"])
            got = sum(len(r) for _, r in cache.values())
            if got != n:
                return _sig(case, "create", "records_lost", catalog=name), f"{name}: {got} random records stored, {n} requested"
            continue
        rec = inp["records"][name]
        if name == "ref" and case["ref_mode"] == "divide":
            cols, parts, amb = orc.expected_partition(rec, patch_ids=inp["ref_ids"])
        elif case["ref_mode"] == "create":
            cen = np.asarray(st0["created.ref"]["centers"]).reshape(-1, 2)
            cols, parts, amb = orc.expected_partition(rec, centers_rad=cen)
        elif case["ref_mode"] == "divide":
            # the others use the reference catalog's centres (data means)
            cen = np.asarray(st0["created.ref"]["centers"]).reshape(-1, 2)
            cols, parts, amb = orc.expected_partition(rec, centers_rad=cen)
        else:
            cols, parts, amb = orc.expected_partition(rec, centers_rad=inp["centers"])
        problems = orc.compare_cache(cache, cols, parts, amb)
        if problems:
            stored = sum(len(r) for _, r in cache.values())
            lost = stored != len(rec["ra"])
            return (
                _sig(case, "create", "records_lost" if lost else "wrong_records", catalog=name),
                f"{name}: " + "; ".join(problems[:3]) + f" (stored {stored} of {len(rec['ra'])})",
            )
    # ---- metadata that rank 0 holds == what is on disk (sequential reopen)
    refroot = os.path.join(root, "ref1")
    shutil.copytree(simroot, refroot)
    strip_derived(refroot, meta=False, trees=True)
    shutil.rmtree(os.path.join(refroot, "io"), ignore_errors=True)
    ref_state: dict = {}
    with fakempi.single_rank():
        for name in scenes.CATS:
            cat = yaw.Catalog(os.path.join(refroot, name), max_workers=1)
            probs = orc.metadata_problems(cat, inp["centers"] if case["ref_mode"] == "apply" else None)
            if probs:
                return _sig(case, "create", "metadata_mismatch", catalog=name), f"{name}: " + "; ".join(probs[:3])
            msg = orc.states_equal(orc.catalog_state(cat), st0[f"created.{name}"], f"created.{name}")
            if msg:
                return _sig(case, "create", "result_differs", catalog=name), f"catalog returned on rank 0 differs from its cache: {msg}"
        # ---- single-rank reference of everything after creation
        try:
            _measure_ops(dict(case, progress=False), refroot, ref_state, mw=1, io_dir=os.path.join(refroot, "io"))
        except Exception as err:  # noqa: BLE001 - reference raises: not a verdict (DESIGN 2.6a)
            return "discard", f"reference raises {type(err).__name__}"
    for key in ref_state:
        if key == "io.corrfunc.equal":
            continue
        if key not in st0:
            return _sig(case, key.split(".")[0], "result_differs"), f"rank 0 has no result {key}"
        msg = orc.states_equal(ref_state[key], st0[key], key)
        if msg:
            return _sig(case, key.split(".")[0], "result_differs"), f"rank 0 vs single-rank execution: {msg}"
    # ---- every rank: broadcast objects equal rank 0's
    for r in range(1, case["size"]):
        for key in st0:
            if key.split(".")[0] in ("created", "reopen", "hist", "io", "refuse") and key != "io.corrfunc.equal":
                if key not in states[r]:
                    return _sig(case, key.split(".")[0], "rank_differs"), f"rank {r} has no result {key}"
                msg = orc.states_equal(st0[key], states[r][key], key)
                if msg:
                    return _sig(case, key.split(".")[0], "rank_differs"), f"rank {r} differs from rank 0: {msg}"
    if st0.get("refuse") == "no_raise":
        return _sig(case, "refuse", "no_raise"), "crosscorrelate accepted catalogs with different patch index sets"
    # ---- every task executed exactly once, on a worker rank
    if "iter" in case["ops"]:
        plog = sim.objects.get("probe_log", [])
        args = sorted(a for a, _ in plog)
        if args != list(range(case["ntasks"])):
            return _sig(case, "iter_unordered", "task_count!=1"), f"arguments executed (arg, rank): {sorted(plog)}"
    return None, None
