"""
C12 -- patch metadata describe the patch, and patch i belongs to centre i.

The invariant ties three pieces of state produced by different simulated
processes at different times: data written by the writer process, metadata
computed and written by pool workers, centres paired with patch paths by the
parent across an unordered parallel map.  Engine E1 (fake multiprocessing).

Part A: creation in the three patch modes, then (i) the returned catalog,
(ii) a catalog reopened from the cache, (iii) a catalog opened under a drawn
worker count / schedule from a copy of the cache *without* meta.yml must all
satisfy the metadata invariant.
Part B (refusal clause): measurements on catalogs whose patch index sets differ
or whose corresponding centres lie farther apart than every patch radius must
raise InconsistentPatchesError on the calling process, under every worker count
and schedule, without hanging.
"""

from __future__ import annotations

import copy
import os
import shutil
import tempfile

import numpy as np

from sim import creation
from sim import oracles as orc
from sim import workloads as wl
from sim.core import Prng, Sim, Verdict, mix

PROP = "C12"
ENGINE = "fakemp"
LEVEL = "exploration"
BUDGET = dict(quick=100.0, thorough=1200.0)
BATCH = 20
RULE = (
    "one evaluation = one simulated scenario.  Part A: catalog creation (given centres in arbitrary order / "
    "patch-id column / generated centres; 1-6 patches; single-object patches; weighted or not; all sky "
    "regions) under workers 1-8 and a seeded schedule, followed by a sequential reopen and a simulated "
    "parallel open of a meta-less copy; every catalog object must satisfy: stored count and weight sum equal "
    "the data.bin records, every record within the stored radius of the stored centre, keys 0..N-1 and "
    "centre i = given centre i, reported centres reproduce the partition.  Part B: crosscorrelate / "
    "autocorrelate on catalogs with different id sets, permuted or displaced centres must raise "
    "InconsistentPatchesError.  distinct_nontrivial = distinct event-log digests among runs with a real "
    "scheduling choice."
)
ASSUMPTIONS = [
    "fake multiprocessing (DESIGN.md 2.2)",
    "refusal is only demanded when the corresponding centres are farther apart than every patch radius of "
    "every catalog involved (the library compares against half the radius of its largest catalog)",
]
PROBES = ["overwrite_of_a_restored_catalog", "caller_modified_centre_array", "patch_column_and_centres_given", "misaligned_first_and_smaller", "single_record_patch", "mode_apply", "mode_divide", "mode_create", "refusal_ids", "refusal_permuted", "refusal_displaced", "refusal_single_displaced", "nometa_parallel_open"]
REAL_VS_STUB = dict(
    real="yaw catalog creation, Patch/Metadata, load_patches, PatchLinkage guards, YAML; tmpfs",
    stub="multiprocessing (sim.fakemp), treecorr RNG/threads, _num_processes",
)


def gen_case(prng: Prng, tier: str, i: int) -> dict:
    if i % 4 == 3:
        return dict(
            prop=PROP,
            part="B",
            kind=prng.choice(["ids", "permuted", "displaced", "single_displaced"]),
            data_seed=prng.below(1 << 30),
            k=prng.randint(2, 5),
            n=prng.randint(30, 90),
            workers=prng.choice([1, 2, 3, 5]),
            entry=prng.choice(["cross", "cross", "auto"]),
            swap=prng.chance(1, 2),       # which catalog is the first positional argument
            big=prng.choice(["A", "B"]),  # which catalog is the larger one
            policy=prng.choice(["prng", "first", "last"]),
            sched_seed=prng.below(1 << 40),
        )
    nmax = 100 if tier == "quick" else 250
    mode = prng.choice(["apply", "apply", "divide", "create"])
    k = prng.randint(1, 6)
    n = prng.randint(1, nmax)
    if prng.chance(1, 4):
        n = prng.randint(k, 2 * k + 1)  # many single-object patches
    if mode == "create":
        n = max(n, 10 * k + 5)
    return dict(
        prop=PROP,
        part="A",
        data=dict(
            data_seed=prng.below(1 << 30), n=n,
            region=prng.choice(["box", "wrap", "npole", "spole", "wide", "strip"]),
            has_w=prng.chance(1, 2), has_z=prng.chance(1, 3),
            w_dtype=prng.choice(["f8", "f8", "i4"]),
            boundary=prng.chance(1, 3),  # a tenth of the records within 1e-9 .. 1e-7 rad of a patch boundary
        ),
        source=prng.choice(["df", "df", "hdf5", "parquet", "fits"]),
        patch=dict(mode=mode, k=k, center_seed=prng.below(1 << 20), pid_dtype="i8", pid_scramble=False,
                   **({"extra_pid_column": True} if (mode == "apply" and prng.chance(1, 4)) else {}),
                   **({"centers_from_catalog": True} if (mode == "apply" and prng.chance(1, 4)) else {})),
        chunksize=prng.choice([None, 3, 7, 20, 64]),
        workers=prng.choice([1, 2, 3, 4, 8]),
        use_none=prng.chance(1, 4),
        progress=prng.chance(1, 5),
        policy=prng.choice(["prng", "prng", "first", "last", "rr"]),
        sched_seed=prng.below(1 << 40),
        open_workers=prng.choice([2, 3, 5]),
        open_seed=prng.below(1 << 40),
        **(dict(prior="catalog_reopened", overwrite=True) if prng.chance(1, 5) else {}),
    )


def gen_cases(tier: str, verif_seed: int, runs: int | None = None) -> list[dict]:
    n = runs if runs is not None else (800 if tier == "quick" else 40000)
    return [gen_case(Prng(mix(verif_seed, PROP, i)), tier, i) for i in range(n)]


def case_size(case: dict) -> int:
    if case["part"] == "B":
        return case["n"] + 20 * case["workers"] + 10 * case["k"]
    return case["data"]["n"] + 10 * case["workers"] + 5 * case["patch"]["k"]


def shrinks(case: dict):
    if case["part"] == "B":
        if case["n"] > 12:
            c = copy.deepcopy(case)
            c["n"] = max(12, case["n"] // 2)
            yield c
        if case["k"] > 2:
            c = copy.deepcopy(case)
            c["k"] -= 1
            yield c
        if case["workers"] > 1:
            c = copy.deepcopy(case)
            c["workers"] = 1
            yield c
        return
    from checks import c02

    yield from c02.shrinks(case)


def _sig(case, outcome, **extra):
    s = dict(property=PROP, part=case["part"], mode="seq" if case["workers"] == 1 else "mp", outcome=outcome)
    s.update(extra)
    return s


def _part_a(case: dict, root: str) -> dict:
    import yaw
    from sim import fakemp
    from sim.scenes import sequential_mode, strip_derived

    o = creation.run_creation(case, os.path.join(root, "a"))
    probes = {f"mode_{case['patch']['mode']}": 1}
    if case.get("prior") == "catalog_reopened":
        probes["overwrite_of_a_restored_catalog"] = 1
    if case["patch"].get("extra_pid_column"):
        probes["patch_column_and_centres_given"] = 1
    try:
        base = dict(digest=o["digest"], nontrivial=o["nontrivial"], steps=o["steps"], head=o["head"], choices=o["choices"])
        if o.get("degenerate_centres"):
            return dict(base, verdict="discard", detail="k-means produced a non-finite centre")
        if o["verdict"] != Verdict.COMPLETE or o["outcome"] != "returned":
            return dict(base, verdict="discard", detail=f"creation did not return ({o['verdict']}/{o['outcome']} {o.get('exc_type')})")
        cat = o["catalog"]
        given = o["centers_given"] if case["patch"]["mode"] == "apply" else None
        if given is not None and o.get("coords_object") is not None:
            # the caller re-uses its centre buffer for something else: the catalog must keep
            # reporting the centres it was created from
            given = np.array(given, copy=True)
            o["coords_object"].data[...] = o["coords_object"].data[::-1] + 0.25
            probes["caller_modified_centre_array"] = 1
        checks = [("returned", cat, given)]
        with sequential_mode():
            checks.append(("reopened", yaw.Catalog(o["target"], max_workers=1), given))
        sig = detail = None
        for label, c, g in checks:
            probs = orc.metadata_problems(c, g)
            if case["patch"]["mode"] in ("apply", "create"):
                probs += orc.partition_reproduced_problems(c)
            if probs:
                sig = _sig(case, "metadata_mismatch", where=label, patch_mode=case["patch"]["mode"])
                detail = f"{label}: " + "; ".join(probs[:4])
                break
            if any(m == 1 for m in c.get_num_records()):
                probes["single_record_patch"] = 1
        # same set of patches in both objects
        if sig is None and list(checks[0][1].keys()) != list(checks[1][1].keys()):
            sig, detail = _sig(case, "metadata_mismatch", where="keys"), "returned and reopened catalogs differ in keys"
        # parallel open of a copy without meta.yml (centres recomputed from data)
        if sig is None:
            nometa = os.path.join(root, "nometa")
            shutil.copytree(o["target"], nometa)
            strip_derived(nometa)
            sim = Sim(case.get("open_seed", 0), fs_root=nometa, cores=case.get("open_workers", 2), step_cap=50_000)
            with fakemp.patched(sim):
                v = sim.run(lambda: yaw.Catalog(nometa, max_workers=None))
            base["steps"] += sim.steps
            base["digest"] = base["digest"] + ":" + sim.digest()[:16]
            base["nontrivial"] = base["nontrivial"] or sim.multi_choice_steps > 0
            probes["nometa_parallel_open"] = 1
            try:
                if v != Verdict.COMPLETE:
                    sig, detail = _sig(case, v, where="nometa_open"), f"{v}: {sim.blocked_report}"
                elif sim.main.exc is not None:
                    sig = _sig(case, "raises", where="nometa_open", exc=type(sim.main.exc).__name__)
                    detail = f"opening a cache without meta.yml raised {sim.main.exc!r}"
                else:
                    c3 = sim.main.result
                    probs = orc.metadata_problems(c3, None)
                    if list(c3.keys()) != list(cat.keys()):
                        probs.append(f"keys {list(c3.keys())} != {list(cat.keys())}")
                    if probs:
                        sig = _sig(case, "metadata_mismatch", where="nometa_open", patch_mode=case["patch"]["mode"])
                        detail = "parallel open without meta.yml: " + "; ".join(probs[:4])
            finally:
                sim.cleanup()
        res = dict(base, verdict="ok" if sig is None else "violation", probes=probes)
        if sig is not None:
            res.update(signature=sig, detail=detail, tail=o["tail"])
        return res
    finally:
        creation.finish(o)


def _part_b(case: dict, root: str) -> dict:
    import yaw
    from sim import fakemp
    from sim.scenes import sequential_mode

    kind = case["kind"]
    seed, k, n = case["data_seed"], case["k"], case["n"]
    edges = [0.1, 0.5, 1.0]
    # redshifts strictly inside the binning: a patch without any object in any bin
    # trips an unrelated defect in build_trees before the guard is reached
    na = min(wl.NMAX, 2 * n + 9) if case.get("big") == "A" else n
    nb = min(wl.NMAX, 2 * n + 9) if case.get("big") == "B" else n
    ra = wl.gen_records(seed, na, has_w=False, has_z=True, zedges=edges, zpad=-0.01, edge_frac=0.0)
    rb = wl.gen_records(seed + 1, nb, has_w=True, has_z=True, zedges=edges, zpad=-0.01, edge_frac=0.0)
    centers = wl.gen_centers(seed + 2, k, "box")
    centers = wl.ensure_nonempty_centers(ra, centers)
    centers = wl.ensure_nonempty_centers(rb, centers)
    centers = wl.ensure_nonempty_centers(ra, centers)
    if len(centers) < 2:
        return dict(verdict="discard", detail="degenerate scene")
    cb = centers.copy()
    if kind == "single_displaced":
        # catalog A (the larger one) gets a single-object patch (radius 0) far from everything
        # else; in catalog B the corresponding centre lies 40 degrees away, all extended
        # patches stay aligned
        ra = wl.gen_records(seed, min(wl.NMAX, 2 * n + 20), has_w=False, has_z=True, zedges=edges, zpad=-0.01, edge_frac=0.0)
        centers = wl.ensure_nonempty_centers(rb, wl.ensure_nonempty_centers(ra, centers))
        far_a = np.deg2rad([200.0, 40.0])
        far_b = np.deg2rad([240.0, 40.0])
        ra = {k_: np.append(v, {"ra": 200.0, "dec": 40.0, "z": 0.5}[k_]) for k_, v in ra.items()}
        rb = dict(rb)
        extra = dict(ra=np.array([240.0, 240.2, 239.9]), dec=np.array([40.0, 40.1, 39.9]), w=np.array([1.0, 2.0, 0.5]), z=np.array([0.3, 0.6, 0.8]))
        rb = {k_: np.concatenate([v, extra[k_]]) for k_, v in rb.items()}
        cb = np.vstack([centers, far_b[None, :]])
        centers = np.vstack([centers, far_a[None, :]])
    elif kind == "ids":
        cb = centers[:-1]
    elif kind == "permuted":
        cb = np.roll(centers, 1, axis=0)
    else:
        cb = centers.copy()
        cb[:, 0] = (cb[:, 0] + np.deg2rad(40.0)) % (2 * np.pi)
        rb = dict(rb)
        rb["ra"] = (rb["ra"] + 40.0) % 360.0
    cb = wl.ensure_nonempty_centers(rb, cb) if kind == "ids" else cb
    if kind == "single_displaced" and (len(centers) < 3 or len(cb) != len(centers)):
        return dict(verdict="discard", detail="degenerate scene")
    pa, pb = os.path.join(root, "A"), os.path.join(root, "B")
    try:
        with sequential_mode():
            ca = yaw.Catalog.from_dataframe(pa, wl.make_dataframe(ra), patch_centers=yaw.AngularCoordinates(centers), max_workers=1, **wl.column_kwargs(ra))
            cbt = yaw.Catalog.from_dataframe(pb, wl.make_dataframe(rb), patch_centers=yaw.AngularCoordinates(cb), max_workers=1, **wl.column_kwargs(rb))
    except ValueError:
        return dict(verdict="discard", detail="degenerate scene (empty centre)")
    # is refusal demanded?
    demanded = False
    if set(ca.keys()) != set(cbt.keys()):
        demanded = True
    else:
        d = orc.angular_distance(np.asarray(ca.get_centers().data), np.asarray(cbt.get_centers().data))
        rmax = max(float(np.max(ca.get_radii().data)), float(np.max(cbt.get_radii().data)))
        demanded = bool(np.any(d > rmax))
    if not demanded:
        return dict(verdict="discard", detail="misalignment smaller than the patch radius: refusal not demanded")
    config = wl.make_config(dict(rmin=0.5, rmax=3.0, unit="deg", edges=edges))

    first, second = (cbt, ca) if case.get("swap") else (ca, cbt)

    # which argument the inconsistent catalog is: every catalog that takes part must reach the guard
    role = case.get("bad_role") or ["unknown", "unk_rand_only", "ref_rand_only", "both_randoms_given"][case.get("sched_seed", 0) % 4]

    twin = None
    if case["entry"] == "cross" and role in ("unk_rand_only", "ref_rand_only"):
        # a second catalog that is consistent with the first one (a copy of its cache): reference and
        # unknown sample must be different caches (binned and unbinned trees)
        with sequential_mode():
            twin_dir = str(first.cache_directory) + "_twin"
            shutil.copytree(str(first.cache_directory), twin_dir)
            twin = yaw.Catalog(twin_dir, max_workers=1)

    def main():
        if case["entry"] == "cross":
            if role == "unk_rand_only":
                return yaw.crosscorrelate(config, first, twin, ref_rand=first, unk_rand=second, max_workers=None)
            if role == "ref_rand_only":
                return yaw.crosscorrelate(config, first, twin, ref_rand=second, unk_rand=twin, max_workers=None)
            if role == "both_randoms_given":
                return yaw.crosscorrelate(config, first, second, ref_rand=first, unk_rand=second, max_workers=None)
            return yaw.crosscorrelate(config, first, second, unk_rand=second, max_workers=None)
        return yaw.autocorrelate(config, first, second, max_workers=None)

    sim = Sim(case.get("sched_seed", 0), choices=case.get("schedule"), policy=case.get("policy", "prng"), fs_root=root, cores=case["workers"], step_cap=50_000)
    with fakemp.patched(sim):
        v = sim.run(main)
    try:
        sig = detail = None
        if v != Verdict.COMPLETE:
            sig, detail = _sig(case, v, kind=kind), f"{v}: {sim.blocked_report}"
        elif sim.main.exc is None:
            sig, detail = _sig(case, "no_raise", kind=kind, entry=case["entry"]), "measurement accepted inconsistent catalogs"
        # any exception on the calling process is a refusal ("refuse, with an error")
        res = dict(
            verdict="ok" if sig is None else "violation",
            digest=sim.digest(), nontrivial=sim.multi_choice_steps > 0, steps=sim.steps,
            probes={f"refusal_{kind}": 1, f"refusal_exc_{type(sim.main.exc).__name__}": 1,
                    **({f"inconsistent_catalog_as_{role}": 1} if case["entry"] == "cross" else {}),
                    "misaligned_first_and_smaller": int(bool(case.get("swap")) and case.get("big") == "A" and kind in ("displaced", "permuted"))}, head=sim.head(20), choices=list(sim.choices),
        )
        if sig is not None:
            res.update(signature=sig, detail=detail, tail=sim.tail(20))
        return res
    finally:
        sim.cleanup()


def run_case(case: dict) -> dict:
    root = tempfile.mkdtemp(prefix="c12-", dir=wl.scratch_root())
    try:
        if case["part"] == "A":
            return _part_a(case, root)
        return _part_b(case, root)
    finally:
        shutil.rmtree(root, ignore_errors=True)
