"""
C02 -- catalog creation stores every input record exactly once, unchanged.
Engine E1 (fake multiprocessing): reader, W pool workers and the writer process
are separate simulated processes; the schedule decides which worker takes which
sub-chunk, in which order their patch dictionaries reach the queue and how far
the reader runs ahead of the writer.
"""

from __future__ import annotations

import copy
import os
import shutil
import tempfile

import numpy as np

from sim import creation
from sim import oracles as orc
from sim import workloads as wl
from sim.core import Prng, Verdict, mix

PROP = "C02"
ENGINE = "fakemp"
LEVEL = "exploration"
BUDGET = dict(quick=100.0, thorough=1500.0)
BATCH = 25
RULE = (
    "one evaluation = one simulated catalog creation: seeded input (1-300 records biased to lengths "
    "m*chunk+{-1,0,1}; optional weight/redshift columns; f8/f4/int dtypes; degrees or radian; whole "
    "sphere incl. poles and RA wrap) x source (DataFrame, traced frame, FITS, HDF5, Parquet with random "
    "row groups, random generator) x patch mode (given centres / patch-id column / generated centres) "
    "x chunk size x writer buffer size x workers 1..8 x schedule (prng / first / last / round-robin), "
    "checked against the independent record-multiset model on the raw data.bin files, on the returned "
    "catalog and on a catalog reopened from the cache.  distinct_nontrivial = distinct event-log digests "
    "among runs where the scheduler had a real choice."
)
ASSUMPTIONS = [
    "fake multiprocessing models CPython 3.12 Pool.map / Manager().Queue() / Process (DESIGN.md 2.2)",
    "for the random source 'the input' is the chunk sequence a fresh generator yields for that chunk size",
    "generated patch centres: treecorr's k-means is real but seeded and single-threaded",
]
PROBES = [
    "tail_chunk_shorter",
    "exact_multiple_of_chunk",
    "map_completion_out_of_order",
    "workers_gt_subchunks",
    "chunk_larger_than_input",
    "buffer_flush_mid_stream",
    "single_record_patch",
    "sequential_path",
    "narrow_coordinate_dtype",
    "parquet_groups_aligned_with_chunks",
    "patch_column_and_centres_given",
    "centres_from_another_catalog",
    "overwrite_of_a_restored_catalog",
    "parquet_nonuniform_row_groups",
    "unsigned_integer_column",
]
REAL_VS_STUB = dict(
    real="yaw readers/DataChunk/split/CatalogWriter/PatchWriter/load_patches, numpy, pandas, astropy.io.fits, h5py, pyarrow, tmpfs",
    stub="multiprocessing Pool/Manager/Process (sim.fakemp), _num_processes, treecorr RNG+threads, Indicator clock",
)

SOURCES = ["df", "traced", "fits", "hdf5", "parquet", "random"]


def gen_case(prng: Prng, tier: str) -> dict:
    source = prng.choice(SOURCES)
    mode = prng.choice(["apply", "apply", "divide", "create"])
    if source == "random" and mode == "divide":
        mode = "apply"
    nmax = 120 if tier == "quick" else 300
    chunksize = prng.choice([None, 1, 2, 3, 5, 7, 16, 33, 64, prng.randint(1, nmax + 3)])
    if chunksize is None or prng.chance(1, 3):
        n = prng.randint(1, nmax)
    else:
        m = prng.randint(1, max(1, min(12, nmax // chunksize)))
        n = max(1, min(nmax, m * chunksize + prng.choice([-1, 0, 0, 1])))
    k = prng.randint(1, 6)
    if mode == "create":
        n = max(n, 10 * k + 5)
    region = prng.choice(["box", "box", "wrap", "npole", "spole", "wide", "strip"])
    if source == "random":
        region = prng.choice(["box", "strip", "npole", "spole"])
    workers = prng.choice([1, 2, 2, 3, 4, 5, 8])
    case = dict(
        prop=PROP,
        data=dict(
            data_seed=prng.below(1 << 30),
            n=n,
            region=region,
            has_w=prng.chance(1, 2),
            has_z=prng.chance(1, 2),
            w_dtype=prng.choice(["f8", "f8", "f4", "i4", "u2"]),
            z_dtype=prng.choice(["f8", "f8", "f4"]),
            coord_dtype=prng.choice(["f8", "f8", "f4", "i4"]),
            degrees=prng.chance(3, 4) if source != "random" else True,
            boundary=prng.chance(1, 4),  # a tenth of the records within 1e-9 .. 1e-7 rad of a patch boundary
        ),
        source=source,
        patch=dict(
            mode=mode, k=k, center_seed=prng.below(1 << 20),
            pid_dtype=prng.choice(["i2", "i4", "i8", "u2"]), pid_scramble=prng.chance(1, 3),
        ),
        chunksize=chunksize,
        buffersize=prng.choice([None, None, -1, 1, 7, 65536]),
        workers=workers,
        cores_extra=prng.choice([0, 0, 3]),
        use_none=prng.chance(1, 4),
        progress=prng.chance(1, 4),
        policy=prng.choice(["prng", "prng", "prng", "first", "last", "rr"]),
        sched_seed=prng.below(1 << 40),
    )
    if mode == "apply" and prng.chance(1, 5):
        case["patch"]["centers_from_catalog"] = True  # patch_centers=<another catalog>
    if mode == "apply" and source != "random" and prng.chance(1, 6):
        case["patch"]["extra_pid_column"] = True  # patch_name given as well: must be ignored
    if source == "fits" and prng.chance(1, 2):
        case["fits_hdu"] = prng.choice([2, 3])  # the table sits behind decoy extensions (reader option hdu)
    if source == "parquet" and chunksize is not None and prng.chance(1, 2):
        # row-group boundaries that coincide with chunk boundaries
        case["pq_rowgroup"] = prng.choice([chunksize, max(1, chunksize // 2), 2 * chunksize, 3 * chunksize])
    elif source == "parquet" and chunksize is not None and prng.chance(1, 2):
        # non-uniform row groups (merged tiles): a large first group, smaller ones after it
        h = max(1, chunksize // 2)
        case["pq_rowgroup"] = [prng.choice([chunksize, 2 * chunksize, chunksize + 1]), h, h, max(1, h - 1), h]
    if prng.chance(1, 6):
        # the target holds an older catalog that this process has already restored and read
        case["prior"], case["overwrite"] = "catalog_reopened", True
    return case


def gen_cases(tier: str, verif_seed: int, runs: int | None = None) -> list[dict]:
    n = runs if runs is not None else (1000 if tier == "quick" else 60000)
    return [gen_case(Prng(mix(verif_seed, PROP, i)), tier) for i in range(n)]


def case_size(case: dict) -> int:
    return case["data"]["n"] + 10 * case["workers"] + 5 * case["patch"]["k"] + (0 if case["source"] == "df" else 20)


def shrinks(case: dict):
    d = case["data"]
    for f in (0.5, 0.75, 0.9):
        m = max(1, int(d["n"] * f))
        if m < d["n"]:
            c = copy.deepcopy(case)
            c["data"]["n"] = m
            yield c
    if d["n"] > 1:
        c = copy.deepcopy(case)
        c["data"]["n"] = d["n"] - 1
        yield c
    if case["workers"] > 1:
        for w in (1, 2, case["workers"] - 1):
            if w < case["workers"]:
                c = copy.deepcopy(case)
                c["workers"] = w
                yield c
    if case["source"] not in ("df", "random"):
        c = copy.deepcopy(case)
        c["source"] = "df"
        yield c
    for key in ("has_w", "has_z"):
        if d.get(key):
            c = copy.deepcopy(case)
            c["data"][key] = False
            yield c
    for key, simple in (("w_dtype", "f8"), ("z_dtype", "f8"), ("coord_dtype", "f8"), ("degrees", True), ("region", "box")):
        if d.get(key) != simple and not (key == "degrees" and case["source"] == "random"):
            c = copy.deepcopy(case)
            c["data"][key] = simple
            yield c
    if case["patch"]["k"] > 1:
        c = copy.deepcopy(case)
        c["patch"]["k"] -= 1
        yield c
    if case["patch"].get("extra_pid_column"):
        c = copy.deepcopy(case)
        c["patch"].pop("extra_pid_column")
        yield c
    if case.get("prior") == "catalog_reopened":
        c = copy.deepcopy(case)
        c.pop("prior")
        c["overwrite"] = False
        yield c
    if case.get("pq_rowgroup") is not None:
        c = copy.deepcopy(case)
        c.pop("pq_rowgroup")
        yield c
    for key, simple in (("buffersize", None), ("progress", False), ("use_none", False), ("cores_extra", 0)):
        if case.get(key) != simple:
            c = copy.deepcopy(case)
            c[key] = simple
            yield c
    if case.get("chunksize") not in (None,) and case["chunksize"] < d["n"]:
        c = copy.deepcopy(case)
        c["chunksize"] = case["chunksize"] + 1
        yield c


def _sig(outcome: str, case: dict, **extra) -> dict:
    s = dict(
        property=PROP,
        entry="from_random" if case["source"] == "random" else ("from_file" if case["source"] in ("fits", "hdf5", "parquet") else "from_dataframe"),
        mode="seq" if case["workers"] == 1 else "mp",
        fault="none",
        outcome=outcome,
    )
    s.update(extra)
    return s


def evaluate(case: dict, o: dict) -> tuple[dict | None, str | None, dict]:
    """Oracles of C02 on a creation outcome.  Returns (signature, detail, probes)."""
    import yaw
    from sim.scenes import sequential_mode

    probes: dict[str, int] = {}
    d, p = case["data"], case["patch"]
    n, cs = d["n"], case.get("chunksize")
    if cs is not None and n > cs and n % cs:
        probes["tail_chunk_shorter"] = 1
    if cs is not None and n % cs == 0 and n >= cs:
        probes["exact_multiple_of_chunk"] = 1
    if cs is None or cs > n:
        probes["chunk_larger_than_input"] = 1
    if case.get("pq_rowgroup"):
        probes["parquet_groups_aligned_with_chunks"] = 1
    if p.get("extra_pid_column"):
        probes["patch_column_and_centres_given"] = 1
    if p.get("centers_from_catalog"):
        probes["centres_from_another_catalog"] = 1
    if case.get("prior") == "catalog_reopened":
        probes["overwrite_of_a_restored_catalog"] = 1
    if isinstance(case.get("pq_rowgroup"), list):
        probes["parquet_nonuniform_row_groups"] = 1
    if (d.get("has_w") and d.get("w_dtype") == "u2") or (p["mode"] == "divide" and p.get("pid_dtype") == "u2"):
        probes["unsigned_integer_column"] = 1
    if case["workers"] == 1:
        probes["sequential_path"] = 1
    if d.get("coord_dtype", "f8") != "f8" and case["source"] != "random":
        probes["narrow_coordinate_dtype"] = 1
    if cs is not None and case["workers"] > min(cs, n):
        probes["workers_gt_subchunks"] = 1
    if case.get("buffersize") in (1, 7) and n > 7:
        probes["buffer_flush_mid_stream"] = 1

    if o["verdict"] != Verdict.COMPLETE:
        return _sig(o["verdict"], case), f"{o['verdict']}: blocked={o['blocked']}", probes
    if o["outcome"] != "returned":
        return (
            _sig("raises", case, exc=o.get("exc_type")),
            f"fault-free creation raised {o.get('exc_type')}: {o.get('exc_msg')}\n{o.get('exc_tb', '')}",
            probes,
        )
    if o["orphans"] or o["queues_left"]:
        return _sig("orphans", case), f"still alive: {o['orphans']}, queued items: {o['queues_left']}", probes

    cat = o["catalog"]
    target = o["target"]
    degrees = d.get("degrees", True)
    if case["source"] == "random":
        records, _ = creation.expected_random_records(case)
        degrees = False
    else:
        records = o["records"]
    try:
        cache = orc.read_cache(target)
    except Exception as err:  # noqa: BLE001
        return _sig("wrong_records", case, what="unreadable"), f"cache unreadable: {err!r}", probes
    ids_file = orc.read_patch_ids_file(target)
    if ids_file != sorted(cache):
        return _sig("wrong_records", case, what="patch_ids"), f"patch_ids.bin {ids_file} != directories {sorted(cache)}", probes

    if p["mode"] == "create":
        centers = np.asarray(cat.get_centers().data).reshape(-1, 2)
        if list(cat.keys()) != list(range(p["k"])):
            return _sig("wrong_records", case, what="patch_ids"), f"keys {list(cat.keys())} for patch_num={p['k']}", probes
        cols, parts, amb = orc.expected_partition(records, degrees=degrees, centers_rad=centers)
    elif p["mode"] == "apply":
        cols, parts, amb = orc.expected_partition(records, degrees=degrees, centers_rad=o["centers_given"])
    else:
        cols, parts, amb = orc.expected_partition(records, degrees=degrees, patch_ids=o["patch_ids"])
    problems = orc.compare_cache(cache, cols, parts, amb)
    if problems:
        lost = sum(len(r) for _, r in cache.values()) != n
        return (
            _sig("records_lost" if lost else "wrong_records", case),
            "; ".join(problems[:4]) + f" (stored {sum(len(r) for _, r in cache.values())} of {n})",
            probes,
        )
    if any(len(r) == 1 for _, r in cache.values()):
        probes["single_record_patch"] = 1

    # the API read path of the returned object, and of a reopened catalog
    with sequential_mode():
        reopened = yaw.Catalog(target, max_workers=1)
    for label, c in (("returned", cat), ("reopened", reopened)):
        if sorted(c.keys()) != sorted(cache):
            return _sig("wrong_records", case, what=label), f"{label} catalog keys {sorted(c.keys())} != {sorted(cache)}", probes
        for pid in c.keys():
            data = c[pid].load_data()
            names = list(data.dtype.names)
            want = ["ra", "dec"] + (["weights"] if "w" in cols else []) + (["redshifts"] if "z" in cols else [])
            if names != want:
                return _sig("wrong_records", case, what=label), f"{label} patch {pid} fields {names} != {want}", probes
            rows = np.column_stack([data[nm] for nm in names]) if len(data) else np.empty((0, len(names)))
            if not np.array_equal(rows, cache[pid][1]):
                return _sig("wrong_records", case, what=label), f"{label} patch {pid}: load_data() differs from data.bin", probes
        if (c.has_weights, c.has_redshifts) != ("w" in cols, "z" in cols):
            return _sig("wrong_records", case, what=label), f"{label}: has_weights/has_redshifts wrong", probes
    return None, None, probes


def _canonical_centers(case: dict, root: str):
    """Generated centres of the canonical run (sequential, one chunk): what the
    chunked / parallel run must reproduce."""
    c = copy.deepcopy(case)
    c.update(workers=1, chunksize=None, buffersize=None, use_none=False, progress=False, policy="first")
    c.pop("schedule", None)
    o = creation.run_creation(c, root)
    try:
        if o["outcome"] != "returned":
            return None
        return np.asarray(o["catalog"].get_centers().data).reshape(-1, 2).copy()
    finally:
        creation.finish(o)


def run_case(case: dict) -> dict:
    root = tempfile.mkdtemp(prefix="c02-", dir=wl.scratch_root())
    try:
        o = creation.run_creation(case, os.path.join(root, "a"))
        try:
            if o.get("degenerate_centres"):
                return dict(verdict="discard", detail="k-means produced a non-finite centre (degenerate input for patch_num)", digest=o["digest"], steps=o["steps"])
            sig, detail, probes = evaluate(case, o)
            if sig is None and case["patch"]["mode"] == "create" and case["source"] != "random":
                ref = _canonical_centers(case, os.path.join(root, "b"))
                got = np.asarray(o["catalog"].get_centers().data).reshape(-1, 2)
                if ref is None:
                    return dict(verdict="discard", detail="canonical run raises", runs=0)
                if not np.allclose(ref, got, rtol=0, atol=1e-12):
                    sig = _sig("wrong_records", case, what="centres_depend_on_chunking")
                    detail = f"generated centres differ from the canonical (one chunk, sequential) run: {got.tolist()} vs {ref.tolist()}"
            for k, v in o["probes"].items():
                probes[k] = probes.get(k, 0) + v
            if o["races"]:
                probes["file_races"] = len(o["races"])
            res = dict(
                verdict="ok" if sig is None else "violation",
                digest=o["digest"],
                nontrivial=o["nontrivial"],
                steps=o["steps"],
                probes=probes,
                head=o["head"],
                choices=o["choices"],
            )
            if sig is not None:
                res.update(signature=sig, detail=detail, tail=o["tail"])
            return res
        finally:
            leaked = creation.finish(o)
            if leaked:
                raise RuntimeError(f"{leaked} simulated threads could not be reclaimed")
    finally:
        shutil.rmtree(root, ignore_errors=True)
