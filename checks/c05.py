"""
C05 -- results do not depend on worker count or completion order
(multiprocessing).  Engine E1: seeded baton scheduler + fake multiprocessing.

One *case* = one scene of fixed cached catalogs (created sequentially) plus a
list of variants (worker count, scheduling policy/seed).  Every variant runs the
parallel entry points on a pristine copy of the cache and must return results
bit-identical to the sequential reference execution of the same calls.
"""

from __future__ import annotations

import os
import shutil
import tempfile

import numpy as np

from sim import oracles as orc
from sim import scenes
from sim.core import Prng, Sim, Verdict, current_sim, mix

PROP = "C05"
ENGINE = "fakemp"
LEVEL = "exploration"
BUDGET = dict(quick=100.0, thorough=1500.0)
BATCH = 4
RULE = (
    "cases = seeded scenes (4 cached catalogs, 2-6 patches, 12-140 records, random binning/scales/"
    "weights) x variants (worker count 1..tasks+3, schedule policy prng/first/last/round-robin); one "
    "evaluation = one variant = one simulated execution of Catalog(dir)/build_trees/crosscorrelate/"
    "autocorrelate/HistData.from_catalog/iter_unordered under the fake Pool, compared bitwise with the "
    "sequential reference.  distinct_nontrivial = number of distinct event-log digests among variants "
    "in which the scheduler had a real choice (>= 2 runnable simulated processes at some step)."
)
ASSUMPTIONS = [
    "the fake multiprocessing.Pool models CPython 3.12 pool semantics (DESIGN.md 2.2)",
    "interleavings are explored at message and file-open granularity; bytes between an open and the "
    "next scheduling point appear atomically (the file-race monitor reports unsynchronised accesses)",
    "worker processes share module globals in the simulation (real forked workers have copies)",
]
PROBES = [
    "imap_completion_out_of_order",
    "workers_gt_tasks",
    "policy_last",
    "policy_rr",
    "single_worker_sequential_path",
    "primed_session",
]
REAL_VS_STUB = dict(
    real="all of yaw, numpy, scipy KDTree, pickle, PyYAML, kernel file system (tmpfs)",
    stub="multiprocessing.Pool (sim.fakemp), parallel._num_processes, Indicator clock",
)

OPS_ALL = ("open", "trees", "cross", "auto", "hist", "iter")


def _probe_func(arg, offset, scale=1):
    sim = current_sim()
    if sim is not None:
        sim.objects.setdefault("probe_log", []).append(arg)
    return (arg, arg * arg * scale + offset)


def gen_cases(tier: str, verif_seed: int, runs: int | None = None) -> list[dict]:
    ncases = runs if runs is not None else (80 if tier == "quick" else 6000)
    nvar = 6 if tier == "quick" else 10
    cases = []
    for i in range(ncases):
        prng = Prng(mix(verif_seed, PROP, i))
        scene = scenes.gen_scene(prng, small=(tier == "quick"))
        # same cache bytes in both executions: bitwise equality is a fair demand also for
        # weights whose sums are not exact (summation order must then be fixed by the code)
        scene["w_kind"] = prng.choice(["dyadic", "float", "float"])
        variants = []
        for j in range(nvar):
            pol = "prng"
            if j == 0:
                pol = "last"
            elif j == 1:
                pol = "rr"
            variants.append(
                dict(
                    workers=prng.randint(1, scene["k"] + 3) if j != 2 else 2,
                    cores_extra=prng.choice([0, 0, 2]),
                    use_none=prng.chance(1, 3),
                    policy=pol,
                    sched_seed=prng.below(1 << 40),
                    progress=prng.chance(1, 4),
                    # one session: an earlier sequential measurement with another binning on the
                    # same caches, in the same (parent) process
                    prime=prng.chance(1, 3),
                )
            )
        cases.append(
            dict(
                prop=PROP,
                scene=scene,
                ops=list(OPS_ALL),
                randoms=prng.choice([["rref", "runk"], ["runk"], ["rref"]]),
                count_rr=prng.chance(2, 3),
                ntasks=prng.randint(1, 9),
                variants=variants,
                leafsize=prng.choice([None, None, 4, 64]),
                force=prng.chance(1, 4),
            )
        )
    return cases


def case_size(case: dict) -> int:
    sc = case["scene"]
    return (
        sc["n_ref"] + sc["n_unk"] + sc["n_rref"] + sc["n_runk"] + 50 * sc["k"]
        + 20 * len(case["variants"]) + 10 * len(case["ops"])
    )


def shrinks(case: dict):
    """Simpler candidate cases (kept only if the same signature persists)."""
    import copy

    focus = case.get("_focus")
    if len(case["variants"]) > 1:
        for j in ([focus] if focus is not None else range(len(case["variants"]))):
            c = copy.deepcopy(case)
            c["variants"] = [case["variants"][j]]
            c.pop("_focus", None)
            yield c
        return
    for op in case["ops"]:
        if len(case["ops"]) > 1:
            c = copy.deepcopy(case)
            c["ops"] = [o for o in case["ops"] if o != op]
            yield c
    sc = case["scene"]
    for key in ("n_ref", "n_unk", "n_rref", "n_runk"):
        for f in (0.5, 0.8):
            v = max(6, int(sc[key] * f))
            if v < sc[key]:
                c = copy.deepcopy(case)
                c["scene"][key] = v
                yield c
    if sc["k"] > 2:
        c = copy.deepcopy(case)
        c["scene"]["k"] = sc["k"] - 1
        yield c
    for key in ("w_ref", "w_unk", "w_rref", "w_runk", "z_unk", "z_runk"):
        if sc.get(key):
            c = copy.deepcopy(case)
            c["scene"][key] = False
            yield c
    v = case["variants"][0]
    if v["workers"] > 2:
        c = copy.deepcopy(case)
        c["variants"][0]["workers"] = v["workers"] - 1
        yield c
    if v.get("progress"):
        c = copy.deepcopy(case)
        c["variants"][0]["progress"] = False
        yield c


# ----------------------------------------------------------------------------
def _run_ops(case: dict, paths: dict, max_workers, progress: bool, state: dict) -> None:
    """The workload: executed sequentially for the reference and as simulated
    process ``main`` under the fake pool.  Stores flattened results in state."""
    import yaw
    from yaw.utils import parallel

    scene = case["scene"]
    config = scenes.scene_config(scene)
    ops = case["ops"]
    kw = dict(max_workers=max_workers)
    cats = {}
    if "open" in ops:
        # first open of caches without meta.yml: metadata computed by the workers
        for name in scenes.CATS:
            cat = yaw.Catalog(paths[name] + ".nometa", **kw)
            state[f"open.{name}"] = orc.catalog_state(cat)
    for name in scenes.CATS:
        cats[name] = yaw.Catalog(paths[name], **kw)
        state[f"reopen.{name}"] = orc.catalog_state(cats[name])
    if "trees" in ops:
        edges, closed = scene["edges"], scene["closed"]
        # rarely supplied options travel to the workers as keyword arguments of the task
        tk = {}
        if case.get("leafsize"):
            tk["leafsize"] = case["leafsize"]
        if case.get("force"):
            tk["force"] = True
        cats["ref"].build_trees(edges, closed=closed, progress=progress, **tk, **kw)
        state["trees.ref"] = orc.tree_state(cats["ref"])
        cats["unk"].build_trees(None, progress=progress, **tk, **kw)
        state["trees.unk"] = orc.tree_state(cats["unk"])
    if "cross" in ops:
        rk = {}
        if "rref" in case["randoms"]:
            rk["ref_rand"] = cats["rref"]
        if "runk" in case["randoms"]:
            rk["unk_rand"] = cats["runk"]
        cfs = yaw.crosscorrelate(config, cats["ref"], cats["unk"], progress=progress, **rk, **kw)
        state["cross"] = [orc.corrfunc_state(cf) for cf in cfs]
        state["cross.sample"] = [orc.sampled_state(cf.sample()) for cf in cfs]
    if "auto" in ops:
        cfs = yaw.autocorrelate(
            config, cats["ref"], cats["rref"], count_rr=case["count_rr"], progress=progress, **kw
        )
        state["auto"] = [orc.corrfunc_state(cf) for cf in cfs]
    if "hist" in ops:
        h = yaw.HistData.from_catalog(cats["ref"], config, progress=progress, **kw)
        state["hist"] = orc.sampled_state(h)
    if "iter" in ops:
        n = case["ntasks"]
        res = list(
            parallel.iter_unordered(_probe_func, range(n), func_args=(3,), func_kwargs=dict(scale=2), **kw)
        )
        state["iter"] = sorted(res)


def _prime(case: dict, paths: dict) -> None:
    """Earlier use of the same caches in the same process: a sequential
    autocorrelation with the inner bin edges moved (same number of bins)."""
    import yaw

    scene = dict(case["scene"])
    edges = list(scene["edges"])
    if len(edges) > 2:
        edges = [edges[0]] + [0.5 * (a + b) for a, b in zip(edges[1:-1], edges[2:])] + [edges[-1]]
    else:
        edges = [edges[0], 0.5 * (edges[0] + edges[1]), edges[1]]
    scene["edges"] = edges
    try:
        with scenes.sequential_mode():
            config = scenes.scene_config(scene)
            ref = yaw.Catalog(paths["ref"], max_workers=1)
            rref = yaw.Catalog(paths["rref"], max_workers=1)
            yaw.autocorrelate(config, ref, rref, max_workers=1)
    except Exception:  # noqa: BLE001 - e.g. a patch without objects in the shifted bins
        pass


def _first_diff(ref: dict, got: dict) -> tuple[str, str] | None:
    for key in ref:
        if key not in got:
            return key, "missing"
        msg = orc.states_equal(ref[key], got[key], key)
        if msg:
            return key, msg
    return None


def _classify(key: str, ref, got) -> str:
    if key == "hist" or key.endswith(".sample"):
        try:
            items = [(ref, got)] if isinstance(ref, dict) else list(zip(ref, got))
            for r, g in items:
                rs, gs = np.asarray(r["samples"]), np.asarray(g["samples"])
                if rs.shape == gs.shape and not np.array_equal(rs, gs, equal_nan=True):
                    srt = lambda a: a[np.lexsort(a.T[::-1])]  # noqa: E731
                    if np.array_equal(srt(rs), srt(gs), equal_nan=True) and np.array_equal(
                        r["data"], g["data"], equal_nan=True
                    ):
                        return "samples_permuted"
        except Exception:  # noqa: BLE001
            pass
    return "result_differs"


def run_case(case: dict) -> dict:
    from sim import fakemp

    root = tempfile.mkdtemp(prefix="c05-", dir=scenes.wl.scratch_root())
    subs = []
    try:
        tpl = os.path.join(root, "tpl")
        os.makedirs(tpl)
        built = scenes.build_scene(case["scene"], tpl)
        if built is None:
            return dict(verdict="discard", detail="degenerate scene (empty centre/bin)", runs=0)
        for name in scenes.CATS:
            shutil.copytree(os.path.join(tpl, name), os.path.join(tpl, name + ".nometa"))
            scenes.strip_derived(os.path.join(tpl, name + ".nometa"))
        # sequential reference
        ref_state: dict = {}
        ref_paths = scenes.copy_scene(tpl, os.path.join(root, "ref"))
        try:
            with scenes.sequential_mode():
                _run_ops(case, ref_paths, 1, False, ref_state)
        except Exception as err:  # noqa: BLE001 - DESIGN 2.6a: not a verdict
            return dict(
                verdict="discard",
                detail=f"reference raises {type(err).__name__}",
                runs=0,
            )
        shutil.rmtree(os.path.join(root, "ref"))
        if "iter" in case["ops"] and ref_state.get("iter") != [(i_, i_ * i_ * 2 + 3) for i_ in range(case["ntasks"])]:
            return dict(
                verdict="violation", runs=1, subs=[], digest="-", nontrivial=True, steps=0, probes={}, head=None,
                signature=dict(property=PROP, entry="iter_unordered", mode="seq", outcome="value_wrong"),
                detail=f"one worker: iter_unordered(func, range({case['ntasks']}), func_args=(3,), func_kwargs={{'scale': 2}}) gave {ref_state.get('iter')}",
            )

        probes: dict[str, int] = {}
        steps = 0
        first_violation = None
        head = None
        for j, var in enumerate(case["variants"]):
            simroot = os.path.join(root, f"sim{j}")
            paths = scenes.copy_scene(tpl, simroot)
            state: dict = {}
            cores = var["workers"] + var.get("cores_extra", 0)
            mw = None if var.get("use_none") else var["workers"]
            if mw is None:
                cores = var["workers"]
            from sim import procstate

            procstate.uninstall()
            procstate.install()  # process-local memo caches with fork semantics for this session
            if var.get("prime"):
                probes["primed_session"] = probes.get("primed_session", 0) + 1
                _prime(case, paths)
            sim = Sim(
                var.get("sched_seed", 0),
                choices=case.get("schedule") if len(case["variants"]) == 1 else None,
                policy=var.get("policy", "prng"),
                fs_root=simroot,
                cores=cores,
                step_cap=100_000,
            )
            sink = open(os.devnull, "w")
            import yaw.utils.logging as ylog

            saved_kw = ylog.Indicator.__init__.__kwdefaults__["stream"]
            ylog.Indicator.__init__.__kwdefaults__["stream"] = sink
            try:
                with fakemp.patched(sim):
                    verdict = sim.run(_run_ops, case, paths, mw, var.get("progress", False), state)
            finally:
                ylog.Indicator.__init__.__kwdefaults__["stream"] = saved_kw
                sink.close()
            steps += sim.steps
            for k, v in sim.probes.items():
                probes[k] = probes.get(k, 0) + v
            if var["workers"] == 1:
                probes["single_worker_sequential_path"] = probes.get("single_worker_sequential_path", 0) + 1
            if var["workers"] > case["scene"]["k"]:
                probes["workers_gt_tasks"] = probes.get("workers_gt_tasks", 0) + 1
            probes[f"policy_{var.get('policy', 'prng')}"] = probes.get(f"policy_{var.get('policy', 'prng')}", 0) + 1
            races = sim.file_races()
            if races:
                probes["file_races"] = probes.get("file_races", 0) + len(races)
            sig = None
            detail = None
            if verdict != Verdict.COMPLETE:
                sig = dict(property=PROP, entry="-", mode="mp", outcome=verdict)
                detail = f"{verdict}: {sim.blocked_report}"
            elif sim.main.exc is not None:
                sig = dict(
                    property=PROP,
                    entry="-",
                    mode="mp",
                    outcome="raises",
                    exc=type(sim.main.exc).__name__,
                )
                detail = f"parallel run raised {sim.main.exc!r} where the sequential run succeeded\n{sim.main.tb[-1500:]}"
            else:
                diff = _first_diff(ref_state, state)
                if diff is not None:
                    key, msg = diff
                    entry = key.split(".")[0]
                    sig = dict(
                        property=PROP,
                        entry=entry,
                        mode="mp",
                        outcome=_classify(key, ref_state[key], state.get(key)),
                    )
                    detail = f"W={var['workers']} policy={var.get('policy')}: {msg}"
                elif "iter" in case["ops"]:
                    plog = sorted(sim.objects.get("probe_log", []))
                    if plog != list(range(case["ntasks"])):
                        sig = dict(property=PROP, entry="iter_unordered", mode="mp", outcome="task_count!=1")
                        detail = f"arguments executed: {plog}"
            if head is None:
                head = sim.head(25)
            subs.append(
                dict(digest=sim.digest(), nontrivial=sim.multi_choice_steps > 0, steps=sim.steps)
            )
            leaked = sim.cleanup()
            procstate.uninstall()
            if leaked:
                probes["leaked_threads"] = probes.get("leaked_threads", 0) + leaked
            shutil.rmtree(simroot, ignore_errors=True)
            if sig is not None and first_violation is None:
                first_violation = dict(
                    signature=sig, detail=detail, focus=j, choices=list(sim.choices),
                    digest=subs[-1]["digest"], tail=sim.tail(25),
                )
                break
        res = dict(
            verdict="ok" if first_violation is None else "violation",
            runs=len(subs),
            subs=subs,
            digest=orc_digest(subs),
            nontrivial=any(s["nontrivial"] for s in subs),
            steps=steps,
            probes=probes,
            head=head,
        )
        if first_violation is not None:
            res.update(first_violation)
        return res
    finally:
        shutil.rmtree(root, ignore_errors=True)


def orc_digest(subs) -> str:
    import hashlib

    h = hashlib.sha256()
    for s in subs:
        h.update(s["digest"].encode())
    return h.hexdigest()
