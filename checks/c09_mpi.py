"""
C09 under MPI: a failing catalog creation on several ranks (helper of checks/c09.py, run in a fresh
interpreter because the library selects its MPI code paths at import time).

Scenario: the input holds a non-finite value in a later chunk; all ranks call
``Catalog.from_dataframe``.  The reader rank raises in the middle of the stream.  Like ``mpirun``,
the world ends when no rank can make progress any more (ranks that still wait are killed with the
job).  Oracle (the clauses of C09 that survive under MPI): some rank raises -- nobody gets a catalog
of other data -- and afterwards the target does not open as a valid catalog.

stdin: the case as JSON; stdout (last line): the result as JSON.
"""

from __future__ import annotations

import json
import os
import shutil
import sys
import tempfile
import warnings

VERIF = os.path.dirname(os.path.dirname(os.path.abspath(__file__)))
sys.path.insert(0, VERIF)


def main() -> int:
    case = json.loads(sys.stdin.read())
    warnings.filterwarnings("ignore")
    os.environ.setdefault("OMP_NUM_THREADS", "1")
    from sim import fakempi

    fakempi.install()
    import numpy as np

    np.seterr(all="ignore")
    import yaw
    import yaw.utils.logging as ylog

    from sim import oracles as orc
    from sim import workloads as wl
    from sim.core import Sim

    d = case["data"]
    f = case["fault"]
    rec = wl.gen_records(d["data_seed"], d["n"], region="box", has_w=True, has_z=True)
    centers = wl.ensure_nonempty_centers(rec, wl.gen_centers(case["patch"]["center_seed"], case["patch"]["k"], "box"))
    cs = case["chunksize"]
    n = d["n"]
    nchunks = (n + cs - 1) // cs
    chunk = {"first": 0, "middle": nchunks // 2, "last": nchunks - 1}[f.get("pos", "last")]
    at = min(n - 1, chunk * cs + f.get("offset", 0) % cs)
    col = f.get("column", "dec")
    bad = np.array(rec[col], dtype="f8")
    bad[at] = {"nan": np.nan, "inf": np.inf, "-inf": -np.inf}[f.get("value", "nan")]
    rec_f = dict(rec, **{col: bad})

    root = tempfile.mkdtemp(prefix="c09m-", dir=wl.scratch_root())
    try:
        target = os.path.join(root, "cat")
        size = case["size"]
        outcomes: dict[int, str] = {}

        def program(rank: int):
            try:
                yaw.Catalog.from_dataframe(
                    target, wl.make_dataframe(rec_f), patch_centers=yaw.AngularCoordinates(centers),
                    chunksize=cs, max_workers=case.get("mw"), **wl.column_kwargs(rec_f),
                )
                outcomes[rank] = "returned"
            except BaseException as err:  # noqa: BLE001
                outcomes[rank] = "raised:" + type(err).__name__
                raise
            return True

        sim = Sim(case.get("sched_seed", 0), choices=case.get("schedule"), policy=case.get("policy", "prng"), fs_root=root, step_cap=120_000)
        sim.scrub = [os.path.realpath(root), root]
        sink = open(os.devnull, "w")
        saved = ylog.Indicator.__init__.__kwdefaults__["stream"]
        ylog.Indicator.__init__.__kwdefaults__["stream"] = sink
        try:
            verdict, world = fakempi.run_world(sim, size, program, force_mode=case.get("force_mode"))
        finally:
            ylog.Indicator.__init__.__kwdefaults__["stream"] = saved
            sink.close()
        raised = sorted(r for r, o in outcomes.items() if o.startswith("raised"))
        res = dict(
            verdict="ok", digest=sim.digest(), nontrivial=sim.multi_choice_steps > 0, steps=sim.steps,
            probes=dict(mpi_failing_creation=1, **({"mpi_reader_rank_raised": 1} if raised else {})),
            head=sim.head(20), choices=list(sim.choices),
        )
        sig = detail = None
        base = dict(property="C09", entry="from_dataframe", mode="mpi", fault="nonfinite", location="reader")
        if str(verdict) == "step_cap":
            sig, detail = dict(base, outcome="step_cap"), f"step cap reached after {sim.steps} steps"
        elif not raised:
            sig = dict(base, outcome="no_raise")
            detail = f"{f.get('value', 'nan')} in column {col} at record {at}: no rank raised (outcomes {outcomes}, world {verdict})"
        tail = sim.tail(25)
        sim.cleanup()
        if sig is None:
            # the next use: a single process opens the target
            opened = None
            with fakempi.single_rank():
                try:
                    cat = yaw.Catalog(target, max_workers=1)
                    opened = (sorted(cat.keys()), int(sum(cat.get_num_records())))
                except Exception:  # noqa: BLE001
                    opened = None
            if opened is not None:
                sig = dict(base, outcome="valid_cache_after_failure")
                detail = (
                    f"{f.get('value', 'nan')} in column {col} at record {at} of {n} ({size} ranks, chunks of {cs}): ranks {raised} raised "
                    f"({[outcomes[r] for r in raised]}), world {verdict}; afterwards Catalog(target) opens with patches {opened[0]} "
                    f"holding {opened[1]} records"
                )
        if sig is not None:
            res.update(verdict="violation", signature=sig, detail=detail, tail=tail)
        print(json.dumps(res, default=str))
        return 0
    finally:
        shutil.rmtree(root, ignore_errors=True)


if __name__ == "__main__":
    sys.exit(main())
