"""
C07 -- measurements are independent of what was cached before.

Engine E3: a Hypothesis stateful machine generates and shrinks histories of
tree builds, measurements and reopenings on the same cache directories; after
every measuring rule the result must equal the one obtained from freshly
created caches, and after every rule every patch directory whose ``binning``
file parses must hold trees that equal a fresh build for the *stored* binning
(staleness is caught when it is created, not only when a later measurement
happens to expose it).
"""

from __future__ import annotations

import copy
import os
import shutil
import tempfile

import numpy as np

from sim import oracles as orc
from sim import scenes
from sim import workloads as wl
from sim.core import Prng, mix
from sim.identity import IdentitySeam
from sim.history import HistoryViolation, Recorder, producer, run_machine, run_prng_producer

PROP = "C07"
ENGINE = "history+fakemp"
LEVEL = "exploration"
BUDGET = dict(quick=110.0, thorough=1500.0)
BATCH = 1
CASE_TIMEOUT = 900.0
SCHEDULED = False
RULE = (
    "cases = seeded batches of histories (harness PRNG; a Hypothesis machine with the same rules is an optional producer) over four cached catalogs on shared "
    "centres (all with redshifts, some exactly on bin edges).  Rules: build(catalog, binning from a colliding "
    "pool {same edges/other closed side, same number of bins/one inner edge moved, a prefix of the edges, one "
    "bin, unbinned}, force), cross(config, subset of randoms), auto(config, catalog), hist(catalog, config), "
    "reopen(catalog).  After every measuring rule: result == the measurement on caches that contain only "
    "patch_ids.bin and data.bin (memoised per arguments); after every rule: cached trees == fresh trees for the "
    "stored binning.  One evaluation = one history (example), <= 10 rules; distinct_nontrivial = distinct "
    "histories with >= 2 rules."
)
ASSUMPTIONS = [
    "rules run sequentially or (worker count 2-3) as simulated parent process under the seeded fake-multiprocessing scheduler; "
    "module-level memo caches (functools.lru_cache) of the yaw package are virtualised per simulated process with fork "
    "semantics (sim/procstate.py); other module-level state is shared between simulated processes",
    "the 'fresh' reference is the same library on a cache stripped of trees and binning files",
]
PROBES = ["rebuild_same_nbins", "closed_side_switch", "binned_to_unbinned", "unbinned_to_binned", "forced_rebuild", "measure_after_foreign_build", "reopen", "op_under_parallel_schedule", "second_handle_used", "identities_recycled", "build_interrupted_by_io_error"]
REAL_VS_STUB = dict(
    real="all of yaw, pickle, tmpfs; references and the on-disk invariant run in real, pristine processes (children of a zygote forked before the session)",
    stub="multiprocessing (sim.fakemp) and per-process memo caches (sim.procstate) for ops with workers > 1; builtins.id (sim.identity)",
)

# binning pool built to collide
POOL = [
    ([0.1, 0.4, 0.7, 1.0], "right"),
    ([0.1, 0.4, 0.7, 1.0], "left"),
    ([0.1, 0.45, 0.7, 1.0], "right"),
    ([0.1, 0.4, 0.7], "right"),
    ([0.1, 1.0], "right"),
    ([0.1, 0.4, 0.7, 1.0, 1.2], "right"),
    # other zmin: with a physical scale the maximum pair separation, and therefore the set of
    # linked patch pairs, differs from the binnings above
    ([0.6, 0.8, 1.0, 1.2], "right"),
    ([0.6, 1.2], "right"),
    # narrow lowest bin: its centre is close to zmin, so pairs out to almost the linking angle count
    ([0.1, 0.14, 0.7, 1.2], "right"),
    # almost the first binning: an inner edge moved by 5e-7, below any sensible tolerance but enough
    # to move the objects whose redshift sits exactly on that edge into the next bin
    ([0.1, 0.4 - 5e-7, 0.7, 1.0], "right"),
]
SCALE = dict(rmin=0.5, rmax=4.0, unit="deg")
SCALE_PHYSICAL = dict(rmin=2000.0, rmax=25000.0, unit="kpc")


def gen_cases(tier: str, verif_seed: int, runs: int | None = None) -> list[dict]:
    n = runs if runs is not None else (16 if tier == "quick" else 480)
    cases = []
    for i in range(n):
        prng = Prng(mix(verif_seed, PROP, i))
        cases.append(
            dict(
                prop=PROP,
                hyp_seed=prng.below(1 << 30),
                data_seed=prng.below(1 << 30),
                k=prng.randint(2, 4),
                n=prng.randint(30, 70),
                max_examples=40 if tier == "quick" else 60,
                geometry=prng.choice(["box", "clumps"]),
                scale=prng.choice(["deg", "kpc"]),
                steps=8,
                identity=["fifo", "lifo", "random"][i % 3],
            )
        )
    return cases


def case_size(case: dict) -> int:
    return 10 * len(case.get("history") or []) + case["n"] + 10 * case["k"]


def shrinks(case: dict):
    from sim.history import shrink_history

    if case.get("sessions"):
        from sim.history import shrink_sessions

        for sess in shrink_sessions(case["sessions"])[:32]:
            c = copy.deepcopy(case)
            c["sessions"] = sess
            yield c
        return
    hist = case.get("history")
    if not hist:
        return

    def simplify(op):
        if op[0] == "build" and op[3]:
            yield ["build", op[1], op[2], False, *op[4:]]
        if op[0] == "cross" and op[2] != 2:
            yield ["cross", op[1], 2, *op[3:]]
        nargs = dict(build=5, cross=4, auto=4, hist=4, reopen=3, ibuild=3)[op[0]]
        core, handle = list(op[: 1 + nargs]), (op[1 + nargs] if len(op) > 1 + nargs else 0)
        if op[0] == "ibuild":
            if core[3] > 1:
                yield [*core[:3], core[3] - 1, handle]  # an earlier file operation fails
        elif core[-2] > 1:
            yield [*core[:-2], 1, 0, handle]  # sequential instead of parallel
        if handle:
            yield [*core, 0]

    for h in shrink_history(hist, simplify):
        c = copy.deepcopy(case)
        c["history"] = h
        yield c
    if case["k"] > 2:
        c = copy.deepcopy(case)
        c["k"] -= 1
        yield c
    if case["n"] > 16:
        c = copy.deepcopy(case)
        c["n"] = max(16, case["n"] // 2)
        yield c


# --------------------------------------------------------------------- model
def _scene(case: dict) -> dict:
    return dict(
        data_seed=case["data_seed"], region=case.get("geometry", "box"), k=case["k"],
        n_ref=case["n"], n_unk=case["n"], n_rref=case["n"] + 7, n_runk=case["n"] + 3,
        w_ref=True, w_unk=False, w_rref=False, w_runk=True, z_unk=True, z_runk=True,
        chunksize=None, edges=[0.1, 0.4, 0.7, 1.0, 1.2], closed="right",
        scale=dict(SCALE_PHYSICAL if case.get("scale") == "kpc" else SCALE),
    )


def build_template(case: dict, tpl: str) -> bool:
    """Create the four catalogs once per case; histories start from copies."""
    sc = _scene(case)
    # redshifts: inside the widest binning, with values on the pool's inner edges
    built = scenes.build_scene(sc, tpl)
    if built is None:
        return False
    scenes.strip_derived(tpl, meta=False, trees=True)
    return True


def _config(edges, closed, case=None):
    scale = SCALE_PHYSICAL if (case or {}).get("scale") == "kpc" else SCALE
    return wl.make_config(dict(scale, edges=list(edges), closed=closed))


def measure_fn(case: dict, key: tuple):
    """The measurement named by ``key`` as a function of (catalog handles, max_workers): the same
    code serves the session under test and the reference process."""
    import yaw

    kind = key[0]
    if kind == "cross":
        _, pool_idx, randoms = key
        cfg = _config(*POOL[pool_idx], case)

        def fn(cats, mw):
            rk = {}
            if randoms & 1:
                rk["ref_rand"] = cats["rref"]
            if randoms & 2:
                rk["unk_rand"] = cats["runk"]
            cfs = yaw.crosscorrelate(cfg, cats["ref"], cats["unk"], max_workers=mw, **rk)
            return [orc.corrfunc_state(cf) for cf in cfs]

    elif kind == "auto":
        _, pool_idx, which = key
        cfg = _config(*POOL[pool_idx], case)
        data, rand = (("ref", "rref"), ("unk", "runk"))[which]

        def fn(cats, mw):
            cfs = yaw.autocorrelate(cfg, cats[data], cats[rand], max_workers=mw)
            return [orc.corrfunc_state(cf) for cf in cfs]

    elif kind == "hist":
        _, name, pool_idx = key
        cfg = _config(*POOL[pool_idx], case)

        def fn(cats, mw):
            return orc.sampled_state(yaw.HistData.from_catalog(cats[name], cfg, max_workers=mw))

    else:
        raise ValueError(key)
    return fn


def _zy_fresh(case: dict, tpl: str, scratch: str, key: tuple):
    """Reference process (a child of the pristine zygote): the measurement on data-only caches."""
    import yaw

    tmp = tempfile.mkdtemp(prefix="fresh-", dir=scratch)
    try:
        paths = scenes.copy_scene(tpl, os.path.join(tmp, "s"))
        with scenes.sequential_mode():
            cats = {n: yaw.Catalog(paths[n], max_workers=1) for n in scenes.CATS}
            try:
                return ("ok", measure_fn(case, key)(cats, 1))
            except Exception as err:  # noqa: BLE001
                return ("raises", type(err).__name__)
    finally:
        shutil.rmtree(tmp, ignore_errors=True)


def _zy_invariant(paths: dict, dirty: list, ops: list, op: list):
    """A new process looks at the caches the session left on disk: trees that a marker vouches for
    equal a fresh build for the stored binning."""
    import yaw
    from yaw.catalog.trees import BinnedTrees, build_trees

    with scenes.sequential_mode():
        for name in scenes.CATS:
            if name in dirty:
                continue
            try:
                cat = yaw.Catalog(paths[name], max_workers=1)
            except Exception:  # noqa: BLE001 - an unreadable cache is loud, not silent
                continue
            for pid, patch in cat.items():
                bfile = os.path.join(str(patch.cache_path), "binning")
                if not os.path.exists(bfile):
                    continue
                try:
                    bt = BinnedTrees(patch)
                    cached = bt.trees
                except Exception:  # noqa: BLE001 - unreadable cache is an error at next use, not silent
                    continue
                try:
                    fresh = build_trees(patch, bt.binning, leafsize=16)
                except Exception:  # noqa: BLE001
                    continue
                c = cached if isinstance(cached, tuple) else (cached,)
                f = fresh if isinstance(fresh, tuple) else (fresh,)
                ok = isinstance(cached, tuple) == isinstance(fresh, tuple) and len(c) == len(f) and all(
                    a.num_records == b.num_records and a.sum_weights == b.sum_weights and np.array_equal(a.data, b.data)
                    for a, b in zip(c, f)
                )
                if not ok:
                    return (
                        dict(property=PROP, failing_rule=op[0], outcome="stale_trees"),
                        f"after {ops}: {name}/patch_{pid} stores binning {bt.binning} but its trees.pkl holds "
                        f"{[t.num_records for t in c]} records per tree, a fresh build gives {[t.num_records for t in f]}",
                    )
    return None


def _zy_single(case: dict, ops: list):
    """The failing history alone, in a pristine process: the signature it yields, or None."""
    res = run_case(dict(case, history=ops, sessions=None))
    return res.get("signature") if res.get("verdict") == "violation" else None


ZYGOTE_HANDLERS = dict(fresh=_zy_fresh, invariant=_zy_invariant, single=_zy_single)


class Model:
    def __init__(self, case: dict, tpl: str, root: str, fresh_cache: dict, rec: Recorder | None = None, zy=None) -> None:
        import yaw

        self.case = case
        self.tpl = tpl
        self.root = root
        self.fresh = fresh_cache  # memo shared by all examples of the case
        self.rec = rec or Recorder()
        self.zy = zy
        self.ops: list = []
        self.outcomes: list = []
        from sim import procstate

        procstate.uninstall()
        procstate.install()  # one session: fresh process-local memo caches
        # object identity behind a seam: handles and measurements released during the history hand
        # their identities to later objects in a recorded order (sim/identity.py)
        self.ident = IdentitySeam(case.get("identity", "fifo"), seed=case["hyp_seed"])
        self.ident.__enter__()
        self.paths = scenes.copy_scene(tpl, os.path.join(root, "state"))
        with scenes.sequential_mode():
            # two live handles on every cache directory: state remembered on a handle must not
            # vouch for what another handle (or another process) did to the cache in between
            self.handles = [
                {n: yaw.Catalog(self.paths[n], max_workers=1) for n in scenes.CATS} for _ in range(2)
            ]
        self.cats = self.handles[0]
        self.last_binning: dict[str, object] = {}
        # catalogs on which an operation *raised* while pool workers were running: Pool.__exit__
        # terminates workers in the middle of their task, i.e. that cache went through a crash.
        # What a crash may leave behind is C08's business (error or correct result at next use);
        # the staleness invariant is not evaluated on such a cache any more.
        self.dirty: set[str] = set()

    # ---- fresh reference on data-only caches
    def _fresh(self, key: tuple):
        if key not in self.fresh:
            # a child of the pristine zygote: no in-process state of the session under test is
            # seen or left behind
            res = self.zy.call("fresh", self.case, self.tpl, os.path.dirname(self.root), key)
            self.fresh[key] = res[1] if res[0] == "ok" else ("raises", res[1])
        return self.fresh[key]

    def close(self) -> None:
        from sim import procstate

        if self.ident.recycled:
            self.rec.probe("identities_recycled")
        self.ident.__exit__(None, None, None)
        procstate.uninstall()
        shutil.rmtree(self.root, ignore_errors=True)

    def apply(self, op: list) -> None:
        self.ops.append(list(op))
        self.outcomes.append("started")
        nargs = dict(build=5, cross=4, auto=4, hist=4, reopen=3, ibuild=3)[op[0]]
        handle = op[1 + nargs] if len(op) > 1 + nargs else 0
        self.cats = self.handles[handle]
        if handle:
            self.rec.probe("second_handle_used")
        getattr(self, "op_" + op[0])(*op[1 : 1 + nargs])
        self.ident.collect()  # released handles and measurements die now, their identities are free
        self._invariant(op)
        if self.outcomes[-1] == "started":
            self.outcomes[-1] = "ok"

    def _exec(self, fn, workers: int, seed: int, label: str):
        """Run ``fn`` as the session's (parent) process: sequentially, or as
        simulated process ``main`` with ``workers`` pool workers under a seeded
        schedule.  Exceptions of the library propagate."""
        if workers <= 1:
            with scenes.sequential_mode():
                return fn()
        from sim import fakemp
        from sim.core import Sim, Verdict

        self.rec.probe("op_under_parallel_schedule")
        sim = Sim(seed, fs_root=self.root, cores=workers, step_cap=150_000)
        try:
            with fakemp.patched(sim):
                verdict = sim.run(fn)
            if verdict != Verdict.COMPLETE:
                raise HistoryViolation(
                    dict(property=PROP, failing_rule=label, outcome=verdict),
                    f"{label} with {workers} workers: {verdict} {sim.blocked_report} after history {self.ops[:-1]}",
                )
            if sim.main.exc is not None:
                raise sim.main.exc
            return sim.main.result
        finally:
            sim.cleanup()

    def _note_transition(self, name: str, new) -> None:
        old = self.last_binning.get(name, "none")
        if old != "none":
            if old is not None and new is not None and len(old[0]) == len(new[0]) and old[0] != new[0]:
                self.rec.probe("rebuild_same_nbins")
            if old is not None and new is not None and old[0] == new[0] and old[1] != new[1]:
                self.rec.probe("closed_side_switch")
            if old is not None and new is None:
                self.rec.probe("binned_to_unbinned")
            if old is None and new is not None:
                self.rec.probe("unbinned_to_binned")
        self.last_binning[name] = new

    # ---- rules
    def op_build(self, name: str, pool_idx, force: bool, workers: int = 1, seed: int = 0) -> None:
        cat = self.cats[name]
        b = None if pool_idx is None else POOL[pool_idx]
        if force:
            self.rec.probe("forced_rebuild")
        mw = None if workers > 1 else 1

        def fn():
            if b is None:
                cat.build_trees(None, force=force, max_workers=mw)
            else:
                cat.build_trees(b[0], closed=b[1], force=force, max_workers=mw)

        try:
            self._exec(fn, workers, seed, "build")
        except HistoryViolation:
            raise
        except Exception:  # noqa: BLE001 - e.g. unbound local for an empty patch: not a verdict
            self.last_binning[name] = "none"
            self.outcomes[-1] = "build-raised"
            if workers > 1:
                self.dirty.add(name)
            return
        self._note_transition(name, None if b is None else (list(b[0]), b[1]))

    def op_ibuild(self, name: str, pool_idx, k: int) -> None:
        """A sequential build that is interrupted: its k-th mutating file operation fails with EIO
        and the exception reaches the caller (a full disk, a lost mount, Ctrl-C have the same shape).
        Some patches are rebuilt, some are not; everything afterwards must still equal fresh caches."""
        import errno

        from sim import fakemp
        from sim.core import Sim

        cat = self.cats[name]
        b = None if pool_idx is None else POOL[pool_idx]

        def fn():
            if b is None:
                cat.build_trees(None, max_workers=1)
            else:
                cat.build_trees(b[0], closed=b[1], max_workers=1)

        sim = Sim(0, fs_root=self.root, cores=1, step_cap=150_000)
        sim.faults["fs_errno"] = (int(k), errno.EIO, "EIO", False)
        try:
            with fakemp.patched(sim):
                sim.run(fn)
            fired = bool(sim.faults.get("_fired", {}).get("EIO"))
            exc = sim.main.exc
        finally:
            sim.cleanup()
        if fired:
            self.rec.probe("build_interrupted_by_io_error")
        if exc is not None:
            self.last_binning[name] = "none"
            self.outcomes[-1] = f"build-interrupted:{type(exc).__name__}"
            return
        self._note_transition(name, None if b is None else (list(b[0]), b[1]))

    def _measure(self, label: str, key: tuple, workers: int = 1, seed: int = 0) -> None:
        fn = measure_fn(self.case, key)
        status, ref = self._fresh(key)
        if any(v != "none" for v in self.last_binning.values()):
            self.rec.probe("measure_after_foreign_build")
        mw = None if workers > 1 else 1
        try:
            got = self._exec(lambda: fn(self.cats, mw), workers, seed, label)
        except HistoryViolation:
            raise
        except Exception as err:  # noqa: BLE001
            if workers > 1:
                self.dirty.update(scenes.CATS)  # workers were terminated mid-task
            if status == "raises" or self.dirty:
                self.outcomes[-1] = f"raised-accepted:{type(err).__name__}"
                return
            raise HistoryViolation(
                dict(property=PROP, failing_rule=label, outcome="raises", exc=type(err).__name__),
                f"{label} raised {err!r} after history {self.ops[:-1]}; on fresh caches it succeeds",
            ) from err
        if status == "raises":
            return  # reference raises: not a verdict
        msg = orc.states_equal(ref, got, label)
        if msg:
            raise HistoryViolation(
                dict(property=PROP, failing_rule=label, outcome="result_differs"),
                f"{label} after history {self.ops[:-1]} differs from the measurement on fresh caches: {msg}",
            )

    def op_cross(self, pool_idx: int, randoms: int, workers: int = 1, seed: int = 0) -> None:
        edges, closed = POOL[pool_idx]
        self._measure("cross", ("cross", pool_idx, randoms), workers, seed)
        for nm, b in (("ref", (list(edges), closed)), ("unk", None)):
            self._note_transition(nm, b)
        if randoms & 1:
            self._note_transition("rref", (list(edges), closed))
        if randoms & 2:
            self._note_transition("runk", None)

    def op_auto(self, pool_idx: int, which: int, workers: int = 1, seed: int = 0) -> None:
        edges, closed = POOL[pool_idx]
        data, rand = (("ref", "rref"), ("unk", "runk"))[which]
        self._measure("auto", ("auto", pool_idx, which), workers, seed)
        self._note_transition(data, (list(edges), closed))
        self._note_transition(rand, (list(edges), closed))

    def op_hist(self, name: str, pool_idx: int, workers: int = 1, seed: int = 0) -> None:
        self._measure("hist", ("hist", name, pool_idx), workers, seed)

    def op_reopen(self, name: str, workers: int = 1, seed: int = 0) -> None:
        import yaw

        self.rec.probe("reopen")
        mw = None if workers > 1 else 1
        self.cats[name] = self._exec(lambda: yaw.Catalog(self.paths[name], max_workers=mw), workers, seed, "reopen")

    # ---- invariant: cached trees equal a fresh build for the stored binning
    def _invariant(self, op: list) -> None:
        """Evaluated by a new process (child of the zygote), so that reading the cached trees
        neither sees nor alters in-process state of the session."""
        res = self.zy.call("invariant", self.paths, sorted(self.dirty), self.ops, op)
        if res[0] != "ok":
            raise RuntimeError(f"invariant evaluation failed: {res}")
        if res[1] is not None:
            sig, detail = res[1]
            raise HistoryViolation(sig, detail)


def draw_op(prng) -> list:
    """One rule application drawn from the harness PRNG (same distributions as the
    Hypothesis machine below)."""
    rule = prng.choice(["build", "cross", "cross", "auto", "auto", "hist", "reopen", "ibuild"])
    w = prng.choice([1, 1, 1, 2, 3])
    seed = prng.below(1 << 16) if w > 1 else 0
    h = prng.choice([0, 0, 1])
    npool = len(POOL)
    if rule == "ibuild":
        b = None if prng.chance(1, 5) else prng.below(npool)
        return ["ibuild", prng.choice(list(scenes.CATS)), b, prng.randint(1, 14), h]
    if rule == "build":
        b = None if prng.chance(1, 4) else prng.below(npool)
        return ["build", prng.choice(list(scenes.CATS)), b, prng.choice([False, False, False, True]), w, seed, h]
    if rule == "cross":
        return ["cross", prng.below(npool), prng.choice([1, 2, 3]), w, seed, h]
    if rule == "auto":
        return ["auto", prng.below(npool), prng.choice([0, 0, 1]), w, seed, h]
    if rule == "hist":
        return ["hist", prng.choice(list(scenes.CATS)), prng.below(npool), w, seed, h]
    return ["reopen", prng.choice(list(scenes.CATS)), w, seed, h]


def _machine_factory(case: dict, tpl: str, root: str, fresh: dict, rec: Recorder, zy=None):
    from hypothesis import strategies as st
    from hypothesis.stateful import RuleBasedStateMachine, rule

    names = st.sampled_from(list(scenes.CATS))
    pool = st.integers(0, len(POOL) - 1)
    nworkers = st.sampled_from([1, 1, 1, 2, 3])
    seeds = st.integers(0, 1 << 16)
    handles = st.sampled_from([0, 0, 1])

    class Machine(RuleBasedStateMachine):
        def __init__(self) -> None:
            super().__init__()
            self.dir = tempfile.mkdtemp(prefix="ex-", dir=root)
            self.model = Model(case, tpl, self.dir, fresh, rec, zy)

        def _do(self, op):
            try:
                self.model.apply(op)
            except HistoryViolation as err:
                rec.last_failure = (list(self.model.ops), err)
                raise

        @rule(name=names, b=st.one_of(st.none(), pool), force=st.sampled_from([False, False, False, True]), w=nworkers, s=seeds, h=handles)
        def build(self, name, b, force, w, s, h):
            self._do(["build", name, b, force, w, s if w > 1 else 0, h])

        @rule(b=pool, randoms=st.sampled_from([1, 2, 3]), w=nworkers, s=seeds, h=handles)
        def cross(self, b, randoms, w, s, h):
            self._do(["cross", b, randoms, w, s if w > 1 else 0, h])

        @rule(b=pool, which=st.sampled_from([0, 0, 1]), w=nworkers, s=seeds, h=handles)
        def auto(self, b, which, w, s, h):
            self._do(["auto", b, which, w, s if w > 1 else 0, h])

        @rule(name=names, b=pool, w=nworkers, s=seeds, h=handles)
        def hist(self, name, b, w, s, h):
            self._do(["hist", name, b, w, s if w > 1 else 0, h])

        @rule(name=names, b=st.one_of(st.none(), st.integers(0, len(POOL) - 1)), k=st.integers(1, 14), h=handles)
        def ibuild(self, name, b, k, h):
            self._do(["ibuild", name, b, k, h])

        @rule(name=names, w=nworkers, s=seeds, h=handles)
        def reopen(self, name, w, s, h):
            self._do(["reopen", name, w, s if w > 1 else 0, h])

        def teardown(self):
            from sim import procstate

            procstate.uninstall()
            rec.finish_example(self.model.ops, self.model.outcomes)
            shutil.rmtree(self.dir, ignore_errors=True)

    return Machine


def run_case(case: dict) -> dict:
    import hashlib

    from sim.isolate import Zygote

    # forked before this process touches the library: reference computations and the on-disk
    # invariant are evaluated by its children, i.e. by processes without any session state
    zy = Zygote(ZYGOTE_HANDLERS)
    root = tempfile.mkdtemp(prefix="c07-", dir=wl.scratch_root())
    rec = Recorder()
    try:
        tpl = os.path.join(root, "tpl")
        os.makedirs(tpl)
        if not build_template(case, tpl):
            return dict(verdict="discard", detail="degenerate scene (empty centre/bin)", runs=0)
        fresh: dict = {}
        violation = None
        if case.get("sessions"):
            # several sessions, one after the other in this process (module-level state of the
            # library survives from one into the next); the last one is the failing one
            for hist in case["sessions"]:
                model = Model(case, tpl, tempfile.mkdtemp(prefix="ex-", dir=root), fresh, rec, zy)
                try:
                    for op in hist:
                        model.apply(op)
                except HistoryViolation as err:
                    violation = (list(model.ops), err)
                finally:
                    model.close()
                rec.finish_example(model.ops, model.outcomes)
                if violation is not None:
                    break
        elif case.get("history") is not None:
            model = Model(case, tpl, tempfile.mkdtemp(prefix="ex-", dir=root), fresh, rec, zy)
            try:
                for op in case["history"]:
                    model.apply(op)
            except HistoryViolation as err:
                violation = (list(model.ops), err)
            finally:
                model.ident.__exit__(None, None, None)
            rec.finish_example(model.ops, model.outcomes)
        elif producer() == "hypothesis":
            err = run_machine(lambda: _machine_factory(case, tpl, root, fresh, rec, zy), case["hyp_seed"], case["max_examples"], case["steps"])
            if err is not None:
                violation = rec.last_failure or ([], err)
        else:
            err = run_prng_producer(
                lambda: Model(case, tpl, tempfile.mkdtemp(prefix="ex-", dir=root), fresh, rec, zy),
                draw_op, case["hyp_seed"], case["max_examples"], case["steps"], rec,
            )
            if err is not None:
                violation = rec.last_failure or ([], err)
        if os.environ.get("VERIF_DUMP_HISTORIES"):
            with open(os.path.join(os.environ["VERIF_DUMP_HISTORIES"], f"c07-{case['hyp_seed']}-{os.getpid()}.txt"), "w") as f:
                f.write("\n".join(rec.all_ops))
        digest = rec.digest()
        res = dict(
            verdict="ok" if violation is None else "violation",
            subs=[dict(digest=s, nontrivial=True, steps=0) for s in sorted(rec.shapes)]
            + [dict(digest="trivial", nontrivial=False, steps=0)] * max(0, rec.examples - len(rec.shapes)),
            digest=digest, nontrivial=bool(rec.shapes), steps=rec.ops_total, probes=rec.probes, head=None,
        )
        if violation is not None:
            ops, err = violation
            res.update(signature=err.signature, detail=err.detail, tail=ops)
            if case.get("sessions"):
                res.update(sessions=[list(h) for h in rec.histories])
            elif case.get("history") is not None:
                res.update(history=ops)
            else:
                from sim.history import replay_form

                def single(c, o):
                    r = zy.call("single", c, o, timeout=240)
                    return r[1] if r[0] == "ok" else None

                res.update(replay_form(case, ops, err.signature, rec, single))
        return res
    finally:
        from sim import procstate

        zy.close()
        procstate.uninstall()
        shutil.rmtree(root, ignore_errors=True)
