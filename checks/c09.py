"""
C09 -- catalog creation is fail-stop: exact catalog or an exception, never a
hang.  Engine E1 (fake multiprocessing, deadlock detection, errno injection at
audited file-system events; the write()-level errno injection lives in the
crashfs engine, see checks/c08.py / DESIGN.md).

Scenario space: fault kind x chunk position x location x worker count x
schedule.  The fault space of the ``fs_errno`` kind is *enumerated*: a fault-free
run counts the N mutating file-system events of the creation, then every
k in 0..N-1 is run.
"""

from __future__ import annotations

import copy
import os
import shutil
import tempfile

from sim import creation
from sim import oracles as orc
from sim import workloads as wl
from sim.core import Prng, Verdict, mix

PROP = "C09"
ENGINE = "fakemp"
LEVEL = "fault_enumeration"
BUDGET = dict(quick=110.0, thorough=1500.0)
BATCH = 12
RULE = (
    "scenarios = fault kind {nan/+inf/-inf in ra/dec/weight/redshift, patch index -1/32768/40000, HDF5 "
    "columns of unequal length, missing column, centre without objects, no patch method, existing cache "
    "without overwrite, overwrite over {catalog cache, unrelated directory, empty directory, regular file}, "
    "parent missing / parent is a file, MemoryError in pool task k, errno {ENOSPC,EACCES,EIO,EROFS} at "
    "mutating file-system event k (all k enumerated per workload)} x position {first, middle, last chunk} "
    "x workers {1,2,3,5} x schedule seeds, plus fault-free controls.  One evaluation = one simulated "
    "creation.  Oracle: raise for every fault / exact catalog otherwise; no deadlock, no step-cap; "
    "pre-existing path untouched unless it is a catalog cache being overwritten; after a failed creation "
    "Catalog(target) raises or is the untouched old cache (or holds exactly the complete new input).  "
    "distinct_nontrivial = distinct event-log digests among runs in which the fault fired (or a real "
    "scheduling choice existed for fault-free controls)."
)
ASSUMPTIONS = [
    "fake multiprocessing models CPython 3.12 (DESIGN.md 2.2): a failing Process target only sets exitcode, "
    "Pool.__exit__ terminates, a Manager queue never blocks on put",
    "errno faults are injected at audited events (open/mkdir/remove/rename/rmdir), not at write(2)",
    "relaxation: a failed creation whose directory reopens with exactly the complete new input is accepted",
]
PROBES = [
    "mpi_failing_creation",
    "mpi_reader_rank_raised",
    "stall_fault_armed",
    "source_read_memerror_fired",
    "libc_read_errno_fired",
    "read_fault_in_input_file",
    "libc_errno_fired",
    "fault_in_first_chunk",
    "fault_in_middle_chunk",
    "fault_in_last_chunk",
    "fault_pool_memerror_fired",
    "fs_errno_fired",
    "fs_errno_in_writer_process",
    "writer_process_killed",
    "control_fault_free",
]
REAL_VS_STUB = dict(
    real="all of yaw incl. DataChunk checks, CatalogWriter/WriterProcess life cycle, rmtree; tmpfs",
    stub="multiprocessing (sim.fakemp), errno injection by audit hook, _num_processes",
)

COLUMNS = ["ra", "dec", "w", "z"]
VALUES = ["nan", "inf", "ninf"]
POSITIONS = ["first", "middle", "last"]
WORKERS = [1, 2, 3, 5]


def _base(prng: Prng, workers: int, **kw) -> dict:
    n = prng.choice([40, 61, 90])
    cs = prng.choice([10, 13, 20])
    case = dict(
        prop=PROP,
        data=dict(data_seed=prng.below(1 << 30), n=n, region="box", has_w=True, has_z=True),
        source="df",
        patch=dict(mode="apply", k=prng.randint(2, 4), center_seed=prng.below(1 << 20), pid_dtype="i8"),
        chunksize=cs,
        workers=workers,
        policy=prng.choice(["prng", "prng", "first", "last"]),
        sched_seed=prng.below(1 << 40),
        prior="none",
        overwrite=False,
        fault=None,
    )
    case.update(kw)
    return case


def gen_cases(tier: str, verif_seed: int, runs: int | None = None) -> list[dict]:
    reps = 4 if tier == "quick" else 400
    cases = []
    i = 0

    def prng():
        nonlocal i
        i += 1
        return Prng(mix(verif_seed, PROP, i))

    for rep in range(reps):
        for w in WORKERS:
            # --- data faults in the reader
            for pos in POSITIONS:
                for col in COLUMNS:
                    p = prng()
                    val = VALUES[(rep + len(cases)) % 3] if tier == "quick" else p.choice(VALUES)
                    src = p.choice(["df", "df", "hdf5", "fits", "parquet"])
                    cases.append(_base(p, w, source=src, fault=dict(kind="nonfinite", column=col, value=val, pos=pos, offset=p.below(50))))
                # a float-typed patch-index column with a non-finite entry
                p = prng()
                c = _base(p, w, source=p.choice(["df", "df", "hdf5", "parquet"]), fault=dict(kind="nonfinite", column="pid", value=VALUES[(rep + len(cases)) % 3], pos=pos, offset=p.below(50)))
                c["patch"]["mode"] = "divide"
                c["patch"]["pid_dtype"] = "f8"
                cases.append(c)
                for val in (-1, 32768, 40000, 65536, 65536 * 3 + 7):
                    p = prng()
                    c = _base(p, w, fault=dict(kind="pid_range", value=val, pos=pos, offset=p.below(50)))
                    c["patch"]["mode"] = "divide"
                    c["patch"]["pid_dtype"] = "i8"
                    cases.append(c)
                p = prng()
                cases.append(_base(p, w, fault=dict(kind="empty_center", pos=pos)))
                p = prng()
                c = _base(p, w, fault=dict(kind="empty_center", pos=pos))
                c["patch"]["centers_from_catalog"] = True  # the centres come as another catalog
                cases.append(c)
            # --- structural faults
            for delta in (-1, 1, -7):
                p = prng()
                cases.append(_base(p, w, source="hdf5", fault=dict(kind="len_mismatch", column=p.choice(["dec", "w", "z"]), delta=delta)))
            for which in ("ra_name", "dec_name", "weight_name", "redshift_name"):
                p = prng()
                cases.append(_base(p, w, source=p.choice(["df", "hdf5", "fits", "parquet"]), fault=dict(kind="missing_column", which=which)))
            p = prng()
            cases.append(_base(p, w, fault=dict(kind="no_patch_method")))
            # --- target path faults
            p = prng()
            cases.append(_base(p, w, prior="catalog", overwrite=False, fault=dict(kind="exists_no_overwrite")))
            p = prng()
            cases.append(_base(p, w, prior="catalog_trees", overwrite=False, fault=dict(kind="exists_no_overwrite")))
            p = prng()
            cases.append(_base(p, w, prior="junkdir", overwrite=False, fault=dict(kind="exists_no_overwrite")))
            p = prng()
            cases.append(_base(p, w, prior="junkdir", overwrite=True, fault=dict(kind="overwrite_not_a_cache", what="junkdir")))
            p = prng()
            cases.append(_base(p, w, prior="junkdir_patchlike", overwrite=True, fault=dict(kind="overwrite_not_a_cache", what="junkdir_patchlike")))
            p = prng()
            cases.append(_base(p, w, prior="emptydir", overwrite=True, fault=dict(kind="overwrite_not_a_cache", what="emptydir")))
            p = prng()
            cases.append(_base(p, w, prior="file", overwrite=True, fault=dict(kind="overwrite_not_a_cache", what="file")))
            p = prng()
            cases.append(_base(p, w, prior="file", overwrite=False, fault=dict(kind="exists_no_overwrite")))
            p = prng()
            cases.append(_base(p, w, prior="noparent", fault=dict(kind="unusable_location", what="noparent")))
            p = prng()
            cases.append(_base(p, w, prior="parentfile", fault=dict(kind="unusable_location", what="parentfile")))
            # --- fault-free controls (incl. legitimate overwrite)
            p = prng()
            cases.append(_base(p, w))
            p = prng()
            c = _base(p, w, source="fits")
            c["fits_hdu"] = p.choice([2, 3])  # the table sits behind decoy extensions (reader option hdu)
            cases.append(c)
            p = prng()
            cases.append(_base(p, w, prior="catalog", overwrite=True))
            p = prng()
            cases.append(_base(p, w, prior="catalog_trees", overwrite=True))
            # --- worker fault
            if w > 1:
                for k in (0, 3, 7):
                    p = prng()
                    cases.append(_base(p, w, fault=dict(kind="pool_memerror", k=k)))
            # --- the writer process is killed by a signal (e.g. OOM killer) at its k-th step
            if w > 1:
                for k in (0, 2, 5, 11):
                    p = prng()
                    cases.append(_base(p, w, fault=dict(kind="writer_killed", k=k)))
                    p = prng()
                    cases.append(_base(p, w, prior="catalog", overwrite=True, fault=dict(kind="writer_killed", k=k)))
            # --- a peer is slow or stalled: the k-th timed wait that finds nothing outlasts its timeout
            # (k = 0: every one).  The pinned library waits without timeouts, so this is a control
            # there; code that gives up waiting must raise or retry, never finalise what it has
            if w > 1:
                for k in (0, 1, 2, 4):
                    p = prng()
                    cases.append(_base(p, w, fault=dict(kind="stalled_peer", k=k)))
            # --- an allocation fails while the k-th chunk (or the probe) is read from the source
            for k in (1, 2, 3, 5):
                p = prng()
                cases.append(_base(p, w, source="traced", fault=dict(kind="source_memerror", k=k)))
            # --- errno at every mutating fs event
            for en in ("ENOSPC", "EACCES", "EIO", "EROFS"):
                p = prng()
                c = _base(p, w, fault=dict(kind="fs_errno", errno=en, sticky=p.chance(1, 2)), fs_enumerate=True)
                c["data"]["n"] = 30
                c["patch"]["k"] = 2
                cases.append(c)
            p = prng()
            c = _base(p, w, prior="catalog", overwrite=True, fault=dict(kind="fs_errno", errno="EIO", sticky=False), fs_enumerate=True)
            c["data"]["n"] = 30
            c["patch"]["k"] = 2
            cases.append(c)
        # --- errno at every libc-level file operation (crashfs shim, sequential mode)
        for en in ("ENOSPC", "EIO", "EACCES", "EROFS"):
            p = prng()
            c = _base(p, 1, fault=dict(kind="libc_errno", errno=en, sticky=p.chance(1, 2)), shim_enumerate=True)
            c["data"]["n"] = 24
            c["patch"]["k"] = 2
            c["chunksize"] = 10
            if en == "EIO":
                c["prior"], c["overwrite"] = "catalog", True
            cases.append(c)
        # --- EIO at every libc-level READ of the input file or of the cache (file sources, shim)
        for src in ("parquet", "hdf5", "fits"):
            p = prng()
            c = _base(p, 1, fault=dict(kind="libc_errno", errno="EIO", sticky=False, reads=True), shim_enumerate=True)
            c["source"] = src
            c["data"]["n"] = 60
            c["patch"]["k"] = 3
            c["chunksize"] = p.choice([16, 20, 25])
            c["pq_rowgroup"] = p.choice([7, 10, 16])
            cases.append(c)
        # --- the same fail-stop clauses on several MPI ranks (fresh interpreter with the fake mpi4py)
        for size in (2, 3, 4):
            for pos in ("middle", "last"):
                p = prng()
                c = _base(p, 1, fault=dict(kind="nonfinite", column=p.choice(["ra", "dec", "w", "z"]), value=p.choice(["nan", "inf", "-inf"]), pos=pos, offset=p.below(50)))
                c.update(mode="mpi", size=size, mw=p.choice([None, None, 2, 3]), force_mode=p.choice([None, None, "sync", "eager"]))
                cases.append(c)
    if runs is not None:
        cases = cases[:runs]
    return cases


def case_size(case: dict) -> int:
    return case["data"]["n"] + 20 * case["workers"] + (0 if case["source"] == "df" else 30)


def shrinks(case: dict):
    if case.get("mode") == "mpi":
        return
    if case.get("shim_enumerate"):
        k = case.get("_focus")
        if k is not None:
            c = copy.deepcopy(case)
            c.pop("shim_enumerate")
            c.pop("_focus", None)
            c["fault"]["k"] = k
            yield c
        return
    if (case.get("fault") or {}).get("kind") == "libc_errno":
        return
    if case.get("fs_enumerate"):
        k = case.get("_focus")
        c = copy.deepcopy(case)
        c.pop("fs_enumerate")
        c.pop("_focus", None)
        c["fault"]["k"] = k if k is not None else 0
        yield c
        return
    d = case["data"]
    for f in (0.5, 0.8):
        m = max(4, int(d["n"] * f))
        if m < d["n"]:
            c = copy.deepcopy(case)
            c["data"]["n"] = m
            yield c
    if case["workers"] > 2:
        c = copy.deepcopy(case)
        c["workers"] = 2
        yield c
    if case["source"] != "df" and (case.get("fault") or {}).get("kind") != "len_mismatch":
        c = copy.deepcopy(case)
        c["source"] = "df"
        yield c
    if case["patch"]["k"] > 2:
        c = copy.deepcopy(case)
        c["patch"]["k"] -= 1
        yield c
    for key in ("has_w", "has_z"):
        f = case.get("fault") or {}
        col = {"has_w": "w", "has_z": "z"}[key]
        if d.get(key) and f.get("column") != col and f.get("which") not in ("weight_name", "redshift_name"):
            c = copy.deepcopy(case)
            c["data"][key] = False
            yield c


def _location(case: dict, o: dict) -> str:
    kind = (case.get("fault") or {}).get("kind")
    if kind in ("nonfinite", "pid_range", "len_mismatch", "missing_column"):
        return "reader"
    if kind == "pool_memerror":
        return "worker"
    if kind in ("exists_no_overwrite", "overwrite_not_a_cache", "unusable_location", "writer_killed"):
        return "writer"
    if kind == "fs_errno":
        return o.get("fs_fault_task", "-")
    return "-"


def _sig(case: dict, o: dict, outcome: str, **extra) -> dict:
    f = case.get("fault") or {}
    s = dict(
        property=PROP,
        entry="from_file" if case["source"] in ("fits", "hdf5", "parquet") else "from_dataframe",
        mode="seq" if case["workers"] == 1 else "mp",
        fault=f.get("kind", "none"),
        fault_location=_location(case, o),
        outcome=outcome,
    )
    if f.get("kind") in ("overwrite_not_a_cache", "unusable_location"):
        s["what"] = f.get("what")
    if f.get("kind") == "exists_no_overwrite":
        s["what"] = case.get("prior")
    s.update(extra)
    return s


def evaluate(case: dict, o: dict) -> tuple[dict | None, str | None]:
    import yaw
    from checks import c02
    from sim.scenes import sequential_mode

    fault = case.get("fault") or {}
    kind = fault.get("kind")
    fired = True
    if kind == "fs_errno":
        fired = bool(o["fault_fired"])
    if kind == "pool_memerror":
        fired = o["probes"].get("fault_pool_memerror_fired", 0) > 0
    if kind == "writer_killed":
        fired = bool(o["fault_fired"].get("kill_task"))
    if kind == "nonfinite" and fault["column"] != "pid" and fault["column"] not in o["records"]:
        fired = False
    if kind == "stalled_peer":
        # giving up may be reported (raise) or overcome (retry): both are fine, each with its obligations
        fired = bool(o["fault_fired"].get("timeouts_fire")) and o["outcome"] != "returned"
    if kind == "source_memerror":
        # the failed read may be reported or retried (then the catalog must be exact)
        fired = bool(o["fault_fired"].get("source_memerror")) and o["outcome"] != "returned"
    expect_raise = kind is not None and fired
    o["fault_effective"] = expect_raise

    # ---- (ii) bounded time
    if o["verdict"] == Verdict.DEADLOCK:
        reasons = sorted({str(b["op"][0]) for b in o["blocked"]})
        who = "main" if not o["main_done"] else "orphan"
        return (
            _sig(case, o, "deadlock", blocked=reasons, who=who),
            f"no simulated process can run: {o['blocked']} (main {'finished' if o['main_done'] else 'is blocked'})",
        )
    if o["verdict"] == Verdict.STEP_CAP:
        return _sig(case, o, "step_cap"), f"step cap reached after {o['steps']} steps"

    target, watch = o["target"], o["watch"]
    hash_after = creation.tree_hash(watch)
    prior = case.get("prior", "none")
    overwrite = case.get("overwrite", False)

    # ---- (iv) pre-existing path untouched
    prior_is_cache = prior in ("catalog", "catalog_trees")
    must_be_untouched = prior != "none" and (not overwrite or not prior_is_cache)
    if must_be_untouched and o["hash_before"] is not None and hash_after != o["hash_before"]:
        return (
            _sig(case, o, "preexisting_modified"),
            f"pre-existing {prior} at the target was modified/removed (overwrite={overwrite}); outcome={o['outcome']} {o.get('exc_type')}",
        )

    if not expect_raise:
        # fault-free (or fault not reached): exact catalog
        sig, detail, _ = c02.evaluate(case, o)
        if sig is not None:
            sig = dict(sig, property=PROP, fault=kind or "none")
            return sig, detail
        return None, None

    # ---- (i) must raise
    if o["outcome"] == "returned":
        cat = o["catalog"]
        other = ""
        try:
            cache = orc.read_cache(str(cat.cache_directory))
            nrec = sum(len(r) for _, r in cache.values())
            other = f"returned catalog holds {nrec} records in patches {sorted(cache)}"
            if prior_is_cache and not overwrite and hash_after == o["hash_before"]:
                return _sig(case, o, "returned_other_data"), f"no exception; the *old* catalog was returned ({other})"
        except Exception as err:  # noqa: BLE001
            other = f"cache unreadable: {err!r}"
        return _sig(case, o, "no_raise"), f"creation returned although it had to raise; {other}"

    # ---- (v) after a failed creation
    if os.path.lexists(target):
        untouched_old = prior_is_cache and hash_after == o["hash_before"]
        try:
            with sequential_mode():
                re = yaw.Catalog(target, max_workers=1)
            opened = True
        except Exception:  # noqa: BLE001
            opened = False
        if untouched_old:
            if not opened:
                return _sig(case, o, "old_cache_unusable"), "untouched pre-existing cache no longer opens"
        elif opened:
            # accepted only if it holds exactly the complete new input
            ok = False
            if kind in ("fs_errno", "pool_memerror", "writer_killed", "stalled_peer", "source_memerror"):
                try:
                    cache = orc.read_cache(target)
                    cols, parts, amb = orc.expected_partition(
                        o["records"], degrees=True, centers_rad=o["centers_given"]
                    )
                    ok = not orc.compare_cache(cache, cols, parts, amb) and sorted(re.keys()) == sorted(cache)
                except Exception:  # noqa: BLE001
                    ok = False
            if not ok:
                nrec = sum(re.get_num_records())
                return (
                    _sig(case, o, "valid_cache_after_failure"),
                    f"creation raised {o.get('exc_type')} but Catalog(target) opens with {nrec} of {case['data']['n']} records in patches {list(re.keys())}",
                )
    return None, None


def _one(case: dict, root: str) -> tuple[dict, dict | None, str | None]:
    o = creation.run_creation(case, root)
    # which simulated process did the errno fault hit?
    for ev in o["tail"] + o["head"]:
        pass
    sim = o["sim"]
    for ev in sim.log:
        if len(ev) >= 6 and ev[0] == "note" and ev[1] == "fault" and ev[2] in creation.ERRNOS:
            o["fs_fault_task"] = "writer" if str(ev[5]).startswith("proc") else ("worker" if str(ev[5]).startswith("pool") else "main")
    sig, detail = evaluate(case, o)
    return o, sig, detail


def _run_shim_case(case: dict) -> dict:
    """errno at every libc-level mutating file operation of a sequential creation
    (engine E2).  Oracle: the creation raises (or, when the fault did not disturb
    it, returns the exact catalog); afterwards Catalog(target) raises or holds
    exactly the complete input."""
    import hashlib

    import numpy as np
    import yaw

    from sim import crashfs
    from sim.scenes import sequential_mode

    root = tempfile.mkdtemp(prefix="c09s-", dir=wl.scratch_root())
    try:
        rec, pids, centers = creation.case_records(case)
        tpl = os.path.join(root, "tpl")
        os.makedirs(tpl)
        target_rel = "cat"
        if case.get("prior") == "catalog":
            creation._make_prior(case, os.path.join(tpl, target_rel), root)
        cols, parts, amb = orc.expected_partition(rec, centers_rad=centers)
        old_cache = orc.read_cache(os.path.join(tpl, target_rel)) if case.get("prior") == "catalog" else None
        work = os.path.join(root, "work")
        log = os.path.join(root, "oplog.txt")
        f = case["fault"]

        def fresh():
            shutil.rmtree(work, ignore_errors=True)
            shutil.copytree(tpl, work)

        reads = bool(f.get("reads"))
        src_kind = case.get("source", "df")
        if reads:
            # the input file lives below the sandbox root as well: reads of it are numbered
            wl.write_source(src_kind, os.path.join(tpl, "input." + src_kind), rec, None,
                            **(dict(pq_seed=case["data"]["data_seed"], pq_rowgroup=case.get("pq_rowgroup")) if src_kind == "parquet" else {}))

        def workload(mode, k):
            def fn():
                if reads:
                    mode_ = crashfs.MODE_COUNT_READS if mode == crashfs.MODE_COUNT else crashfs.MODE_READ_ERRNO
                else:
                    mode_ = mode
                crashfs.arm(work, log if mode == crashfs.MODE_COUNT else None, mode_, k, crashfs.ERRNOS[f["errno"]], f.get("sticky", False))
                try:
                    with sequential_mode():
                        if reads:
                            cat = yaw.Catalog.from_file(
                                os.path.join(work, target_rel), os.path.join(work, "input." + src_kind),
                                patch_centers=yaw.AngularCoordinates(centers), chunksize=case["chunksize"],
                                overwrite=case.get("overwrite", False), max_workers=1, **wl.column_kwargs(rec),
                            )
                        else:
                            cat = yaw.Catalog.from_dataframe(
                                os.path.join(work, target_rel), wl.make_dataframe(rec),
                                patch_centers=yaw.AngularCoordinates(centers), chunksize=case["chunksize"],
                                overwrite=case.get("overwrite", False), max_workers=1, **wl.column_kwargs(rec),
                            )
                    out = ("returned", int(sum(cat.get_num_records())))
                except Exception as err:  # noqa: BLE001
                    out = ("raised", type(err).__name__)
                n = crashfs.disarm()
                return out, n

            return fn

        def next_use():
            try:
                with sequential_mode():
                    cat = yaw.Catalog(os.path.join(work, target_rel), max_workers=1)
                cache = orc.read_cache(os.path.join(work, target_rel))
            except Exception as err:  # noqa: BLE001
                return ("raises", type(err).__name__)
            ok = not orc.compare_cache(cache, cols, parts, amb) and sorted(cat.keys()) == sorted(cache)
            if ok:
                return ("opens_complete",)
            if old_cache is not None and sorted(cache) == sorted(old_cache) and all(
                orc.rows_equal_multiset(old_cache[p][1], cache[p][1]) is None for p in cache
            ):
                return ("opens_old_complete",)  # pre-existing cache still intact
            return ("opens_other", sum(len(r) for _, r in cache.values()))

        fresh()
        if os.path.exists(log):
            os.remove(log)
        code, payload = crashfs.run_child(workload(crashfs.MODE_COUNT, -1))
        if code != 0 or payload is None or payload[0] != "ok" or payload[1][0][0] != "returned":
            return dict(verdict="harness_error", error=f"fault-free shim workload failed: {code} {payload}")
        nops = payload[1][1]
        oplog = crashfs.read_oplog(log)
        subs, probes, faults = [], {}, {}
        violation = None
        ks = [case["fault"]["k"]] if case["fault"].get("k") is not None else range(1, nops + 1)
        for k in ks:
            fresh()
            code, payload = crashfs.run_child(workload(crashfs.MODE_ERRNO, k))
            if code != 0 or payload is None or payload[0] != "ok":
                return dict(verdict="harness_error", error=f"errno@{k}: workload child failed: {code} {payload}")
            (outcome, info), _ = payload[1]
            code, nu = crashfs.run_child(next_use)
            if code != 0 or nu is None or nu[0] != "ok":
                return dict(verdict="harness_error", error=f"errno@{k}: recovery child failed: {code} {nu}")
            nu = nu[1]
            faults[f["errno"]] = faults.get(f["errno"], 0) + 1
            probes["libc_errno_fired"] = probes.get("libc_errno_fired", 0) + 1
            op = oplog[k - 1].split(" ") if k <= len(oplog) else ["?", "?", "?"]
            if reads:
                probes["libc_read_errno_fired"] = probes.get("libc_read_errno_fired", 0) + 1
                if op[2].startswith("input."):
                    probes["read_fault_in_input_file"] = probes.get("read_fault_in_input_file", 0) + 1
            sig = None
            if outcome == "returned" and nu[0] != "opens_complete":
                sig = _sig(case, dict(fs_fault_task="main"), "no_raise", op=op[1], file=os.path.basename(op[2]).split("_")[0])
                detail = f"{f['errno']} at libc operation {k}/{nops} ({' '.join(op[1:3])}): creation returned {info} records but the cache {nu}"
            elif outcome == "raised" and nu[0] == "opens_other":
                sig = _sig(case, dict(fs_fault_task="main"), "valid_cache_after_failure", op=op[1], file=os.path.basename(op[2]).split("_")[0])
                detail = f"{f['errno']} at libc operation {k}/{nops} ({' '.join(op[1:3])}): creation raised {info} but Catalog(target) opens with {nu[1]} of {case['data']['n']} records"
            subs.append(dict(digest=hashlib.sha256(f"{k}:{outcome}:{info}:{nu}".encode()).hexdigest(), nontrivial=True, steps=k))
            if sig is not None:
                violation = dict(signature=sig, detail=detail, focus=k, tail=oplog[max(0, k - 10):k])
                break
        h = hashlib.sha256()
        for s_ in subs:
            h.update(s_["digest"].encode())
        res = dict(verdict="ok" if violation is None else "violation", subs=subs, digest=h.hexdigest(), nontrivial=True,
                   steps=sum(s_["steps"] for s_ in subs), probes=probes, faults=faults, head=oplog[:20])
        if violation is not None:
            res.update(violation)
        return res
    finally:
        shutil.rmtree(root, ignore_errors=True)


def _run_mpi_case(case: dict) -> dict:
    """A failing creation on several MPI ranks: checks/c09_mpi.py in a fresh interpreter (the
    library selects its MPI code paths when it is imported)."""
    import json
    import subprocess
    import sys

    helper = os.path.join(os.path.dirname(os.path.abspath(__file__)), "c09_mpi.py")
    env = dict(os.environ, PYTHONHASHSEED="0", OMP_NUM_THREADS="1")
    env.pop("LD_PRELOAD", None)
    try:
        p = subprocess.run([sys.executable, helper], input=json.dumps(case), capture_output=True, text=True, timeout=100, env=env)
    except subprocess.TimeoutExpired:
        return dict(verdict="harness_error", error="MPI helper interpreter timed out")
    lines = [ln for ln in p.stdout.splitlines() if ln.startswith("{")]
    if p.returncode != 0 or not lines:
        return dict(verdict="harness_error", error=f"MPI helper failed ({p.returncode}): {p.stderr[-800:]}")
    res = json.loads(lines[-1])
    res["faults"] = {"nonfinite": 1}
    return res


def run_case(case: dict) -> dict:
    if case.get("mode") == "mpi":
        return _run_mpi_case(case)
    if (case.get("fault") or {}).get("kind") == "libc_errno":
        return _run_shim_case(case)
    root = tempfile.mkdtemp(prefix="c09-", dir=wl.scratch_root())
    probes: dict[str, int] = {}
    faults: dict[str, int] = {}
    subs = []
    steps = 0
    violation = None
    head = None
    try:
        plans = [case]
        if case.get("fs_enumerate"):
            base = copy.deepcopy(case)
            base.pop("fs_enumerate")
            count_case = copy.deepcopy(base)
            count_case["fault"] = None
            o = creation.run_creation(count_case, os.path.join(root, "count"))
            nmut = o["sim"].counters.get("fs_mutation", 0)
            # without a plan the counter is not advanced: count write accesses instead
            nmut = sum(1 for a in o["sim"].fs_accesses if a[1])
            creation.finish(o)
            shutil.rmtree(os.path.join(root, "count"), ignore_errors=True)
            plans = []
            for k in range(nmut):
                c = copy.deepcopy(base)
                c["fault"]["k"] = k
                plans.append(c)
        for j, c in enumerate(plans):
            sub_root = os.path.join(root, f"r{j}")
            o, sig, detail = _one(c, sub_root)
            try:
                steps += o["steps"]
                f = c.get("fault") or {}
                kind = f.get("kind")
                effective = o.get("fault_effective", False)
                if kind is None:
                    probes["control_fault_free"] = probes.get("control_fault_free", 0) + 1
                if kind == "stalled_peer":
                    probes["stall_fault_armed"] = probes.get("stall_fault_armed", 0) + 1
                if kind == "source_memerror" and o["fault_fired"].get("source_memerror"):
                    probes["source_read_memerror_fired"] = probes.get("source_read_memerror_fired", 0) + 1
                if effective:
                    faults[kind] = faults.get(kind, 0) + 1
                    if "pos" in f:
                        probes[f"fault_in_{f['pos']}_chunk"] = probes.get(f"fault_in_{f['pos']}_chunk", 0) + 1
                    if kind == "writer_killed":
                        probes["writer_process_killed"] = probes.get("writer_process_killed", 0) + 1
                    if kind == "fs_errno":
                        probes["fs_errno_fired"] = probes.get("fs_errno_fired", 0) + 1
                        faults[f["errno"]] = faults.get(f["errno"], 0) + 1
                        if o.get("fs_fault_task") == "writer":
                            probes["fs_errno_in_writer_process"] = probes.get("fs_errno_in_writer_process", 0) + 1
                if o["verdict"] == Verdict.DEADLOCK:
                    probes["deadlock_detected"] = probes.get("deadlock_detected", 0) + 1
                for k_, v in o["probes"].items():
                    probes[k_] = probes.get(k_, 0) + v
                subs.append(dict(digest=o["digest"], nontrivial=bool(effective or (kind is None and o["nontrivial"])), steps=o["steps"]))
                if head is None:
                    head = o["head"]
                if sig is not None and violation is None:
                    violation = dict(signature=sig, detail=detail, focus=f.get("k") if case.get("fs_enumerate") else None,
                                     choices=o["choices"], tail=o["tail"], digest=o["digest"])
            finally:
                creation.finish(o)
                shutil.rmtree(sub_root, ignore_errors=True)
            if violation is not None:
                break
        import hashlib

        h = hashlib.sha256()
        for s in subs:
            h.update(s["digest"].encode())
        res = dict(
            verdict="ok" if violation is None else "violation",
            subs=subs,
            digest=h.hexdigest() if len(subs) != 1 else subs[0]["digest"],
            nontrivial=any(s["nontrivial"] for s in subs),
            steps=steps,
            probes=probes,
            faults=faults,
            head=head,
        )
        if violation is not None:
            res.update(violation)
        return res
    finally:
        shutil.rmtree(root, ignore_errors=True)
